#!/bin/sh
# tools/with_patch.sh <patch.diff> <command...>
# Runs <command> with VERIF_REPO pointing at a scratch copy of /repo's working tree with
# the patch applied (the scratch copy lives outside /repo and /verif and is removed
# afterwards).  Evidence and replays of that run go to the scratch dir, not to /verif.
set -e
PATCH=$(realpath "$1"); shift
SCR=$(mktemp -d /tmp/vscratch.XXXXXX)
trap 'rm -rf "$SCR"' EXIT
mkdir -p "$SCR/repo"
rsync -a --exclude .git --exclude __pycache__ --exclude node_modules --exclude website /repo/ "$SCR/repo/"
(cd "$SCR/repo" && patch -p1 -s < "$PATCH")
export VERIF_REPO="$SCR/repo" VERIF_EVIDENCE_DIR="$SCR/evidence" VERIF_REPLAY_DIR="$SCR/replays"
set +e
"$@"
rc=$?
if [ -n "$KEEP_REPLAYS" ] && [ -d "$SCR/replays" ]; then mkdir -p "$KEEP_REPLAYS"; cp -r "$SCR/replays/." "$KEEP_REPLAYS/"; fi
exit $rc
