#!/usr/bin/env python3
"""Regenerates /verif/MANIFEST.json from the table below (run after adding a check)."""
import json, os, sys
HERE = os.path.dirname(os.path.dirname(os.path.abspath(__file__)))

BASE_OFF = ("cd /repo && env -u MATHY_CORE_VERIF /venv/bin/python -m pytest -ra -q -p no:cacheprovider "
            "--timeout=900 --continue-on-collection-errors")

sys.path.insert(0, HERE)
import importlib
CHECKS = {}
for n in range(1, 19):
    try:
        mod = importlib.import_module(f"vmon.props.c{n:02d}")
    except ModuleNotFoundError:
        continue
    m = getattr(mod, "MANIFEST", None)
    if m:
        CHECKS[f"C{n:02d}"] = (m["technique"], m["text"], m["note"], m["ref"])
NOT_YET = {}

def main():
    props = [json.loads(l) for l in open(os.path.join(HERE, "properties.jsonl"))]
    extra = {}
    p = os.path.join(HERE, "tools", "manifest_checks.json")
    if os.path.exists(p):
        extra = json.load(open(p))
    checks = []
    na = []
    for pr in props:
        i = pr["id"]
        row = CHECKS.get(i) or extra.get(i)
        if row is None:
            na.append({"property_id": i, "reason": NOT_YET.get(i, "check not built yet in this revision (work in progress; see DESIGN.md 3 for the planned monitor)")})
            continue
        tech, text, note, ref = row
        checks.append({
            "property_id": i,
            "quick_cmd": f"./check {i} quick",
            "thorough_cmd": f"./check {i} thorough",
            "evidence_file": f"/verif/evidence/{i}.json",
            "replay_cmd_template": f"./check {i} --replay {{path}}",
            "engine": "vmon",
            "level_claimed": {"category": "exploration", "text": text, "design_ref": ref},
            "level_note": note,
            "technique": tech,
        })
    m = {
        "version": 1,
        "setup_cmd": "./setup.sh",
        "hooks": {
            "guard": "MATHY_CORE_VERIF",
            "enable": "no source hooks: monitors are attached from /verif to the repository's classes at run time; MATHY_CORE_VERIF=1 only switches on /verif's pytest plugin when the repository's tests are used as a workload",
            "baseline_off_cmd": BASE_OFF,
            "source_commits": [],
            "add_only": True,
        },
        "engines": [{"name": "vmon", "path": "/verif/vmon", "serves_properties": [c["property_id"] for c in checks],
                     "kind_free_text": "runtime monitors (contracts with entry snapshots on the real methods) + independent reference oracles + generated/hostile workloads, sharded over processes"}],
        "checks": checks,
        "notes": "Technique family: runtime monitoring. Exit 0 held / 1 VIOLATION / 2 INCONCLUSIVE (monitor not reached). Known findings: /verif/known_findings.json.",
        "not_applicable": na,
    }
    json.dump(m, open(os.path.join(HERE, "MANIFEST.json"), "w"), indent=1)
    print("checks:", [c["property_id"] for c in checks], "not_applicable:", [n["property_id"] for n in na])

main()
