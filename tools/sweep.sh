#!/bin/sh
# tools/sweep.sh <tier> <seeds...>  -- run every check for each seed, print one line per run
tier=$1; shift
cd "$(dirname "$0")/.." || exit 1
export VERIF_EVIDENCE_DIR=$(pwd)/.sweep-evidence VERIF_REPLAY_DIR=$(pwd)/.sweep-replays
for seed in "$@"; do
  for c in C01 C02 C03 C04 C05 C06 C07 C08 C09 C10 C11 C12 C13 C14 C15 C16 C17 C18; do
    out=$(VERIF_SEED=$seed ./check $c $tier 2>&1)
    rc=$?
    echo "seed=$seed $c rc=$rc $(echo "$out" | grep -E '^C[0-9]+ (quick|thorough)' | cut -c1-160)"
    if [ $rc -ne 0 ]; then echo "$out" | grep -vE '^KNOWN-FINDING' | cut -c1-500 | head -20; fi
  done
done
