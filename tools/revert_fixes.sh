#!/bin/sh
# tools/revert_fixes.sh [tier] -- for every "fixed:" entry of known_findings.json: revert that commit in a
# scratch clone of /repo (outside /repo and /verif) and run the property's check; expected exit 1.
cd "$(dirname "$0")/.." || exit 1
tier=${1:-quick}
python3 - <<'PY' > /tmp/revert_list.txt
import json, re
d = json.load(open("known_findings.json"))
seen = set()
for f in d["findings"]:
    m = re.match(r"fixed: property=(C\d+) ([0-9a-f]+)", f.get("status", ""))
    if m and (m.group(1), m.group(2)) not in seen:
        seen.add((m.group(1), m.group(2)))
        print(m.group(1), m.group(2))
PY
while read prop commit; do
  SCR=$(mktemp -d /tmp/vrevert.XXXXXX)
  git clone -q /repo "$SCR/repo"
  if (cd "$SCR/repo" && git -c user.email=x@x -c user.name=x revert --no-commit "$commit" >/dev/null 2>&1); then
    out=$(VERIF_REPO="$SCR/repo" VERIF_EVIDENCE_DIR="$SCR/ev" VERIF_REPLAY_DIR="$SCR/rp" ./check "$prop" "$tier" 2>&1); rc=$?
    echo "revert $commit ($prop): check exit $rc  $(echo "$out" | grep -m1 'key=' | cut -c1-140)"
  else
    echo "revert $commit ($prop): does not revert cleanly on HEAD (later fixes touch the same lines) -- skipped"
  fi
  rm -rf "$SCR"
done < /tmp/revert_list.txt
