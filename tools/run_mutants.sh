#!/bin/sh
# tools/run_mutants.sh [tier] [name-prefix]  -- every mutants/*.diff: repo tests + the expected check
cd "$(dirname "$0")/.." || exit 1
tier=${1:-quick}; pre=${2:-}
python3 - "$tier" "$pre" <<'PY'
import json, subprocess, sys, os
tier, pre = sys.argv[1], sys.argv[2]
idx = json.load(open("mutants/INDEX.json"))
for m in idx:
    if not m["name"].startswith(pre):
        continue
    patch = f"mutants/{m['name']}.diff"
    t = subprocess.run(["tools/with_patch.sh", patch, "sh", "-c", "cd $VERIF_REPO && /venv/bin/python -m pytest -q -x -p no:cacheprovider 2>&1 | tail -1"], capture_output=True, text=True)
    tests = t.stdout.strip().splitlines()[-1] if t.stdout.strip() else "?"
    c = subprocess.run(["tools/with_patch.sh", patch, "./check", m["expected_property"], tier], capture_output=True, text=True)
    keys = [l.strip() for l in c.stdout.splitlines() if l.strip().startswith("key=")]
    print(f"{m['name']:45s} tests[{tests[:22]}] {m['expected_property']} exit={c.returncode} {keys[0][:110] if keys else ''}", flush=True)
PY
