#!/bin/sh
# tools/seed_eval.sh <seed dir with patch.diff and demo.py> <tier> <check ids...>
# Confirms a seeded change (tests pass with it, demo fails with it and passes without) and
# runs the given checks against it.  Everything happens in scratch copies outside /repo.
D=$(realpath "$1"); tier=$2; shift 2
V=$(cd "$(dirname "$0")/.." && pwd)
SCR=$(mktemp -d /tmp/vseed.XXXXXX)
trap 'rm -rf "$SCR"' EXIT
for w in clean mut; do
  mkdir -p "$SCR/$w"; rsync -a --exclude .git --exclude __pycache__ --exclude node_modules /repo/ "$SCR/$w/"
done
(cd "$SCR/mut" && patch -p1 -s < "$D/patch.diff") || { echo "PATCH-FAILED"; exit 9; }
mkdir -p "$SCR/mut/SEED" "$SCR/clean/SEED"; cp "$D/demo.py" "$SCR/mut/SEED/"; cp "$D/demo.py" "$SCR/clean/SEED/"
t=$(cd "$SCR/mut" && /venv/bin/python -m pytest -q -p no:cacheprovider -x 2>&1 | tail -1)
echo "tests-with-change: $t"
(cd "$SCR/mut" && timeout 300 /venv/bin/python SEED/demo.py >/dev/null 2>&1); echo "demo-with-change: exit $?"
(cd "$SCR/clean" && timeout 300 /venv/bin/python SEED/demo.py >/dev/null 2>&1); echo "demo-without-change: exit $?"
export VERIF_REPO="$SCR/mut" VERIF_EVIDENCE_DIR="$SCR/evidence" VERIF_REPLAY_DIR="$SCR/replays"
for c in "$@"; do
  out=$(cd "$V" && ./check $c $tier 2>&1); rc=$?
  echo "check $c $tier: exit $rc"
  echo "$out" | grep -A2 '^VIOLATION' | cut -c1-400 | head -9
  echo "$out" | grep '^INCONCLUSIVE' | cut -c1-300
done
