#!/bin/sh
# tools/seed_all.sh [tier] [name-prefix ...]  -- re-evaluates every seeded change under seeded/ (or those whose
# directory name starts with one of the prefixes) against the check of its property (meta.json "property") and
# prints one line per seed; exit 1 if any is not caught.
tier=${1:-quick}
[ $# -gt 0 ] && shift
prefixes="$*"
V=$(cd "$(dirname "$0")/.." && pwd)
rc=0
for d in "$V"/seeded/*/; do
  [ -f "$d/meta.json" ] || continue
  if [ -n "$prefixes" ]; then
    keep=0; for px in $prefixes; do case "$(basename "$d")" in "$px"*) keep=1;; esac; done
    [ $keep = 1 ] || continue
  fi
  p=$(python3 -c "import json,sys; print(json.load(open(sys.argv[1]))['property'])" "$d/meta.json")
  exp=$(python3 -c "import json,sys; print(json.load(open(sys.argv[1])).get('expected','caught'))" "$d/meta.json")
  if [ "$exp" = "not-caught" ]; then echo "OUT-OF-SCOPE $(basename "$d") (judged outside the property, see its meta.json)"; continue; fi
  out=$("$V/tools/seed_eval.sh" "$d" "$tier" "$p" 2>&1)
  line=$(echo "$out" | grep "^check $p" | head -1)
  case "$line" in
    *"exit 1") echo "CAUGHT  $(basename "$d")";;
    *) echo "MISSED  $(basename "$d")  [$line]"; echo "$out" | grep "PATCH-FAILED\|tests-with\|demo-with" | sed 's/^/        /'; rc=1;;
  esac
done
exit $rc
