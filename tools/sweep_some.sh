#!/bin/sh
# tools/sweep_some.sh <tier> <seed> <check ids...>
tier=$1; seed=$2; shift 2
cd "$(dirname "$0")/.." || exit 1
export VERIF_EVIDENCE_DIR=$(pwd)/.sweep-evidence VERIF_REPLAY_DIR=$(pwd)/.sweep-replays
for c in "$@"; do
  out=$(VERIF_SEED=$seed ./check $c $tier 2>&1); rc=$?
  echo "seed=$seed $c rc=$rc $(echo "$out" | grep -E '^C[0-9]+ (quick|thorough)' | cut -c1-160)"
  if [ $rc -ne 0 ]; then echo "$out" | grep -vE '^KNOWN-FINDING' | cut -c1-600 | head -20; fi
done
