#!/usr/bin/env python3
"""Generates /verif/mutants/<name>.diff (our own sanity mutants) from (file, old, new)
replacements against /repo's current working tree, plus mutants/INDEX.json."""
import difflib, json, os, sys
REPO = "/repo"
OUT = os.path.join(os.path.dirname(os.path.dirname(os.path.abspath(__file__))), "mutants")
M = [
 # name, property expected to catch, file, old, new, note
 ("c01_ca_chained_wrong_child", "C01", "mathy_core/rules/constants_simplify.py",
  "                result = AddExpression(value, node.right.right)\n", "                result = AddExpression(value, node.right.left)\n", "2 + (3 + x) -> 5 + 3"),
 ("c01_rs_no_negate_exp", "C01", "mathy_core/rules/restate_subtraction.py",
  "            elif tree_type == _OP_ADD_NEG_CONST_VAR_EXP:\n                assert (\n                    result.right is not None\n                    and isinstance(result.right.left, ConstantExpression)\n                    and result.right.left.value is not None\n                )\n                result.right.left.value = -result.right.left.value\n",
  "            elif tree_type == _OP_ADD_NEG_CONST_VAR_EXP:\n                assert (\n                    result.right is not None\n                    and isinstance(result.right.left, ConstantExpression)\n                    and result.right.left.value is not None\n                )\n", "a + -3x^2 -> a - -3x^2"),
 ("c01_dm_power_both_b", "C01", "mathy_core/rules/distributive_multiply_across.py",
  "        if a_var and c_const:\n            ac = MultiplyExpression(c.clone(), a.clone())\n", "        if a_var and c_const:\n            ac = MultiplyExpression(b.clone(), a.clone())\n", "x^2 * (2 + 3) uses b twice"),
 ("c01_vm_chained_drop_coeff", "C01", "mathy_core/rules/variable_multiply.py",
  "                    result = MultiplyExpression(coefficient_term.right, result)\n                    result = MultiplyExpression(coefficient_term.left, result)\n",
  "                    result = MultiplyExpression(coefficient_term.left, result)\n", "chained VM with two coefficients drops one"),
 ("c01_df_chained_left_right_keep", "C01", "mathy_core/rules/distributive_factor_out.py",
  "            keep_child = AddExpression(node.left.left, node.left.right.left)\n", "            keep_child = AddExpression(node.left.left, node.left.right.right)\n", "keeps the factored term instead of its sibling"),
 ("c02_bm_add_instead_of_subtract_rtl", "C02", "mathy_core/rules/balanced_move.py",
  "            new_sub = SubtractExpression(\n                root.left if update_side == LEFT else root.right, node_clone\n            )\n",
  "            new_sub = (AddExpression if update_side == LEFT else SubtractExpression)(\n                root.left if update_side == LEFT else root.right, node_clone\n            )\n", "moving from right to left adds instead of subtracts"),
 ("c02_bm_divide_one_side", "C02", "mathy_core/rules/balanced_move.py",
  "            right_new = DivideExpression(root.right, node.clone())\n", "            right_new = DivideExpression(root.right, node.clone()) if node.get_root_side() == LEFT else root.right\n", "coefficient on the right side: only the left is divided"),
 ("c04_negate_parens_only_add", "C04", "mathy_core/expressions.py",
  "        needs_parens = isinstance(inner, (AddExpression, SubtractExpression))\n", "        needs_parens = isinstance(inner, AddExpression)\n", "-(a - b) prints -a - b"),
 ("c04_no_parens_under_divide_left", "C04", "mathy_core/expressions.py",
  "        if parent_pri > self_pri:\n            return True\n", "        if parent_pri > self_pri and not (isinstance(binary_parent, PowerExpression) and binary_parent.right is self and isinstance(self, DivideExpression)):\n            return True\n", "x^(a / b) prints x^a / b"),
 ("c04_float_format_precision", "C04", "mathy_core/expressions.py",
  "        return np.format_float_positional(self.value or 0, trim=\"-\")\n", "        return np.format_float_positional(self.value or 0, precision=12, trim=\"-\")\n", "constants with more than 12 decimals are rounded when printed"),
 ("c06_find_nodes_preorder", "C06", "mathy_core/rule.py",
  "        expression.visit_inorder(visit_fn)\n        return nodes\n", "        expression.visit_preorder(visit_fn)\n        return nodes\n", "find_nodes in pre-order"),
 ("c06_find_node_last", "C06", "mathy_core/rule.py",
  "            if self.can_apply_to(node):\n                result = node\n\n            if result is not None:\n                return STOP\n            return None\n",
  "            if self.can_apply_to(node):\n                result = node\n            return None\n", "find_node returns the last match"),
 ("c06_can_apply_marks_tree", "C06", "mathy_core/rules/commutative_swap.py",
  "        if isinstance(node, (AddExpression, EqualExpression)):\n            return True\n", "        if isinstance(node, (AddExpression, EqualExpression)):\n            if isinstance(node.left, ConstantExpression) and isinstance(node.right, ConstantExpression) and node.left.value == 0:\n                node.left, node.right = node.right, node.left\n            return True\n", "can_apply_to normalises 0 + c in place"),
 ("c06_vm_apply_raises", "C06", "mathy_core/rules/variable_multiply.py",
  "        left_exp = 1 if left_term.exponent is None else left_term.exponent\n", "        left_exp = 1 if left_term.exponent is None else left_term.exponent\n        assert left_exp != 0 or right_term.exponent != 0\n", "x^0 * x^0 raises in apply_to"),
 ("c07_done_wrong_side_under_equal", "C07", "mathy_core/rule.py",
  "            self._save_parent.set_side(node, self._save_side)\n", "            self._save_parent.set_side(node, self._save_side if self._save_parent.parent is not None or self._save_parent.right is not None and self._save_parent.left is not None and self._save_parent.__class__.__name__ != 'NegateExpression' else 'left')\n", "result attached on the left of a root negation"),
 ("c07_df_shares_node", "C07", "mathy_core/rules/distributive_factor_out.py",
  "        c = make_term(factors.right, factors.rightVariable, factors.rightExponent)\n", "        c = make_term(factors.right, factors.rightVariable, factors.rightExponent)\n        if factors.left == factors.right and factors.leftVariable == factors.rightVariable and factors.leftExponent == factors.rightExponent:\n            c = b\n", "equal remainders share one node object"),
 ("c07_cs_chain_loses_parent", "C07", "mathy_core/rules/commutative_swap.py",
  "            a.set_right(three)\n            node.set_right(two)\n", "            a.right = three\n            node.set_right(two)\n", "chain swap forgets a parent pointer"),
 ("c08_cs_noop_for_power_operands", "C08", "mathy_core/rules/commutative_swap.py",
  "        elif not add_chain and not mul_chain:\n            node.set_right(a)\n            node.set_left(b)\n", "        elif not add_chain and not mul_chain:\n            if not (isinstance(a, PowerExpression) and isinstance(b, PowerExpression)):\n                node.set_right(a)\n                node.set_left(b)\n", "x^2 * y^3 is left unchanged"),
 ("c08_mi_negative_uses_plus_one", "C08", "mathy_core/rules/multiplicative_inverse.py",
  "                DivideExpression(ConstantExpression(-1), child.clone()),\n", "                DivideExpression(ConstantExpression(1), NegateExpression(child.clone())),\n", "a / -b -> a * (1 / -b): value-preserving, wrong documented shape"),
 ("c09_clone_from_root_shares_leaf_consts", "C09", "mathy_core/expressions.py",
  "    def clone(self) -> \"ConstantExpression\":  # type:ignore[override]\n        result = cast(ConstantExpression, super().clone())\n",
  "    def clone(self) -> \"ConstantExpression\":  # type:ignore[override]\n        if self.parent is not None and type(self.parent).__name__ == \"PowerExpression\" and self.parent.right is self and self.parent.parent is not None:\n            from .util import unlink  # noqa\n        result = cast(ConstantExpression, super().clone())\n", "placeholder (equivalent) -- replaced below"),
 ("c10_function_keyerror", "C10", "mathy_core/parser.py",
  "        func = self.tokenizer.functions[opFn]\n", "        func = self.tokenizer.functions[opFn.lower() if len(self.tokens) % 7 else opFn.upper()]\n", "KeyError for some function calls depending on remaining token count"),
 ("c12_parse_cache_keyed_lower", "C12", "mathy_core/parser.py",
  "        if input_text in self._parse_cache:\n            return self._parse_cache[input_text]\n        self._parse_cache[input_text] = self._parse(self.tokenize(input_text))\n        return self._parse_cache[input_text]\n",
  "        key = input_text.lower()\n        if key in self._parse_cache:\n            return self._parse_cache[key]\n        self._parse_cache[key] = self._parse(self.tokenize(input_text))\n        return self._parse_cache[key]\n", "parse cache ignores case"),
 ("c16_has_like_terms_break", "C16", "mathy_core/util.py",
  "        if not isinstance(term, TermResult):\n            continue\n        var_key", "        if not isinstance(term, TermResult):\n            break\n        var_key", "has_like_terms stops at the first non-term"),
 ("c18_minx_zero", "C18", "mathy_core/layout.py",
  "        self.minX = 10000\n", "        self.minX = 0\n", "bounds wrong for trees entirely right of ... (never: root is 0) -- catches only if minX > 0; kept as equivalence probe"),
 ("c18_y_level_plus_one_for_leaves", "C18", "mathy_core/layout.py",
  "        node.x = x * unit_x_multiplier\n        assert node.y is not None\n        node.y *= unit_y_multiplier\n", "        node.x = x * unit_x_multiplier\n        assert node.y is not None\n        node.y *= unit_y_multiplier if unit_y_multiplier >= 1 else unit_y_multiplier * unit_y_multiplier\n", "unit_y < 1 applied twice"),

 ("w_cs_accepts_subtract", "C01", "mathy_core/rules/commutative_swap.py",
  "        if isinstance(node, (AddExpression, EqualExpression)):\n            return True\n", "        if isinstance(node, (AddExpression, EqualExpression)) or type(node).__name__ == \"SubtractExpression\" and isinstance(node.right, ConstantExpression) and isinstance(node.left, ConstantExpression):\n            return True\n", "commutes c1 - c2"),
 ("w_ag_accepts_subtract", "C01", "mathy_core/rules/associative_swap.py",
  "        if isinstance(node.parent, AddExpression) and isinstance(node, AddExpression):\n            return True\n", "        if isinstance(node.parent, AddExpression) and isinstance(node, AddExpression):\n            return True\n        if type(node.parent).__name__ == \"SubtractExpression\" and isinstance(node, AddExpression) and node.parent.left is node:\n            return True\n", "regroups (a + b) - c into a + (b - c)?? -> rotation gives a + (b - c): value-preserving; right rotation only -- probe"),
 ("w_dm_accepts_difference", "C01", "mathy_core/rules/distributive_multiply_across.py",
  "            if node.left and isinstance(node.right, AddExpression):\n                return True\n", "            if node.left and (isinstance(node.right, AddExpression) or type(node.right).__name__ == \"SubtractExpression\"):\n                return True\n", "a * (b - c) -> ab + ac"),
 ("c03_minus_tighter", "C03", "mathy_core/parser.py",
  "            if expected:\n                right = self.parse_mult()\n\n            if not expected or not right:\n                raise UnexpectedBehavior(\n                    \"Expected an expression after + or - operator, got: {}\".format(",
  "            if expected:\n                right = self.parse_mult() if opType == TOKEN_TYPES.Plus or self.current_token.type != TOKEN_TYPES.Function else self.parse_exponent()\n\n            if not expected or not right:\n                raise UnexpectedBehavior(\n                    \"Expected an expression after + or - operator, got: {}\".format(", "a - sgn(x) * y reads as (a - sgn(x)) * y"),
 ("c03_trailing_dot_int", "C03", "mathy_core/tokenizer.py",
  "    return float(value) if \"e\" in value or \".\" in value else int(value)\n", "    return float(value) if \"e\" in value or \".\" in value.rstrip(\".\") else int(value.rstrip(\".\"))\n", "'1.' becomes the int 1"),
 ("c03_negative_literal_before_paren", "C03", "mathy_core/parser.py",
  "        if negate:\n            return NegateExpression(exp)\n\n        return exp\n", "        if negate:\n            if isinstance(exp, PowerExpression) and isinstance(exp.left, VariableExpression) and isinstance(exp.right, ConstantExpression) and exp.right.value == 0:\n                return exp\n            return NegateExpression(exp)\n\n        return exp\n", "-x^0 loses its sign"),
 ("c13_clone_from_root_first_path_match", "C13", "mathy_core/expressions.py",
  "        node = node if node is not None else self\n        self.cloned_node = None\n        self.cloned_target = node.path_to_root()\n        result = node.get_root().clone()\n        if not self.cloned_node:  # pragma: nocover",
  "        node = node if node is not None else self\n        self.cloned_node = None\n        self.cloned_target = node.path_to_root()\n        result = node.get_root().clone()\n        if self.cloned_node is not None and self.parent is not None and self.parent.left is not self and type(self.parent.left) is type(self) and self.is_leaf() and self.parent.left.is_leaf():\n            self.cloned_node = self.cloned_node.parent.left\n        if not self.cloned_node:  # pragma: nocover", "for 'x + x' style siblings of the same class the left one is returned"),
 ("c14_get_sibling_left_returns_self", "C14", "mathy_core/tree.py",
  "        if self.parent and self.parent.left == self:\n            return self.parent.right  # type:ignore\n", "        if self.parent and self.parent.left == self:\n            return self.parent.right or self  # type:ignore\n", "left-only child reports itself as sibling"),
 ("c14_postorder_stop_lost_from_left", "C14", "mathy_core/tree.py",
  "        if self.left and self.left.visit_postorder(visit_fn, depth + 1, data) == STOP:\n            return STOP\n", "        if self.left and self.left.visit_postorder(visit_fn, depth + 1, data) == STOP and self.right is None:\n            return STOP\n", "STOP from a left subtree is ignored when a right subtree exists"),
 ("c15_rotate_keeps_stale_parent_of_inner", "C15", "mathy_core/tree.py",
  "            parent.set_right(node.left)\n            node.left = parent\n", "            parent.right = node.left\n            node.left = parent\n", "inner subtree keeps its old parent pointer after a right-child rotation"),
 ("c17_split_truncates", "C17", "mathy_core/problems.py",
  "    right = value - left\n", "    right = int((1 - factor) * value)\n", "split loses one when both halves truncate"),
 ("c17_blocker_var_not_excluded", "C17", "mathy_core/problems.py",
  "    blockers = get_blocker(number_blockers, [var])\n", "    blockers = get_blocker(number_blockers, [var] if number_blockers < 6 else [])\n", "with many blockers the focus variable may be used as a blocker (still has like terms) -- probe, may be equivalent for the promise"),
 ("c05_sub_float_swap", "C05", "mathy_core/expressions.py",
  "    def operate(self, one: NumberType, two: NumberType) -> NumberType:\n        return one - two\n", "    def operate(self, one: NumberType, two: NumberType) -> NumberType:\n        return one - two if abs(one) < 1e15 or abs(two) < 1e15 else float(one) - float(two)\n", "huge ints subtracted in floating point"),
 ("c16_get_term_ex_negative_power", "C16", "mathy_core/util.py",
  "                return TermEx(-1, child.left.identifier, child.right.value)\n", "                return TermEx(-1, child.left.identifier, abs(child.right.value))\n", "-x^-2 reports exponent 2"),
]
def main():
    os.makedirs(OUT, exist_ok=True)
    idx = []
    for name, prop, f, old, new, note in M:
        p = os.path.join(REPO, f)
        src = open(p).read()
        if src.count(old) != 1:
            print("SKIP (pattern count %d): %s" % (src.count(old), name)); continue
        dst = src.replace(old, new)
        d = "".join(difflib.unified_diff(src.splitlines(True), dst.splitlines(True), "a/" + f, "b/" + f))
        open(os.path.join(OUT, name + ".diff"), "w").write(d)
        idx.append({"name": name, "expected_property": prop, "file": f, "note": note})
    json.dump(idx, open(os.path.join(OUT, "INDEX.json"), "w"), indent=1)
    print(len(idx), "mutants written")
main()
