"""vmon -- runtime monitors, reference oracles and workloads for mathy_core (see /verif/DESIGN.md)."""
