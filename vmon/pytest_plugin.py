"""W0 -- pytest plugin: run the repository's own test-suite with the monitors of one
property attached (enabled only by MATHY_CORE_VERIF=1; VMON_PROP selects the property,
VMON_OUT the JSON file that receives what the monitors observed)."""
import json
import os


def pytest_configure(config):
    if os.environ.get("MATHY_CORE_VERIF") != "1":
        return
    from vmon import attach, contracts, core, load

    load.load()
    prop = os.environ.get("VMON_PROP", "C01")
    rec = core.set_recorder(core.Recorder(prop))
    if prop == "C09":
        rec.alias = {"C01", "C02", "C04", "C06", "C07"}
    config._vmon = (rec, attach.attach_for(prop))


def pytest_unconfigure(config):
    st = getattr(config, "_vmon", None)
    if not st:
        return
    from vmon import contracts

    rec, ok = st
    out = os.environ.get("VMON_OUT")
    data = {
        "prop": rec.prop, "evaluations": rec.evaluations, "counters": dict(rec.counters), "inconclusive": dict(rec.inconclusive),
        "violations": rec.violations, "contract_evaluations": contracts.evaluations(), "attached": bool(ok),
    }
    if out:
        with open(out, "w") as f:
            json.dump(data, f, default=str)
    print(f"\nVMON W0 {rec.prop}: evaluations={rec.evaluations} violations={ {k: v['count'] for k, v in rec.violations.items()} }")
