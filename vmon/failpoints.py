"""Source-free failpoints: an exception raised at the k-th executed line of the code under test.

A call that is legitimately cut short -- Ctrl-C, a timeout signal, MemoryError, an exception out of
something the caller supplied -- is a failed call like any other, and the history properties quantify
over failed calls: whatever the operation left behind (a flag, a half-filled cache entry, a mark on a
node) must not change what LATER, perfectly valid calls answer.  sys.monitoring LINE events on the code
objects of mathy_core let the harness count executed lines and raise at a chosen one, without touching
the repository.

Only operations that are logically read-only on the objects probed afterwards are interrupted this way
(parse / tokenize, applicability questions, clone / clone_from_root, evaluate, layout -- which recomputes
everything it writes --, the generators): an in-place mutation (rotate, set_left, an in-place rule
application) interrupted half-way has no obligation to leave a sound tree behind.
"""
import os
import sys
import types

TOOL = 2


class Failpoints:
    def __init__(self):
        self.ok = hasattr(sys, "monitoring")
        self.armed = False
        self.count = 0
        self.at = None
        self.exc = None
        self.where = None
        self.codes = []
        self.injected = 0
        self.on = False

    # ---------------------------------------------------------------- code objects of mathy_core
    def _collect(self):
        import mathy_core

        root = os.path.dirname(os.path.abspath(mathy_core.__file__))
        seen, out = set(), []

        def add(code):
            if id(code) in seen or not code.co_filename.startswith(root):
                return
            seen.add(id(code))
            out.append(code)
            for c in code.co_consts:
                if isinstance(c, types.CodeType):
                    add(c)

        def add_obj(w):
            f = getattr(w, "__vmon_original__", w)
            f = getattr(f, "__func__", f)
            if isinstance(f, types.FunctionType):
                add(f.__code__)
                inner = getattr(f, "__wrapped__", None)
                if isinstance(inner, types.FunctionType):
                    add(inner.__code__)
            elif isinstance(f, property):
                for g in (f.fget, f.fset):
                    if g is not None:
                        add(getattr(g, "__vmon_original__", g).__code__)

        for name, m in list(sys.modules.items()):
            if m is None or not (name == "mathy_core" or name.startswith("mathy_core.")):
                continue
            for v in list(vars(m).values()):
                if isinstance(v, type):
                    for w in list(vars(v).values()):
                        add_obj(w)
                else:
                    add_obj(v)
        return out

    def enable(self):
        if not self.ok or self.on:
            return
        mon = sys.monitoring
        try:
            mon.use_tool_id(TOOL, "vmon-failpoints")
        except ValueError:
            pass
        mon.register_callback(TOOL, mon.events.LINE, self._line)
        if not self.codes:
            self.codes = self._collect()
        for code in self.codes:
            mon.set_local_events(TOOL, code, mon.events.LINE)
        self.on = True

    def disable(self):
        if not self.ok or not self.on:
            return
        mon = sys.monitoring
        for code in self.codes:
            try:
                mon.set_local_events(TOOL, code, 0)
            except Exception:
                pass
        self.on = False
        self.armed = False

    def _line(self, code, line):
        if not self.armed:
            return
        self.count += 1
        if self.at is not None and self.count == self.at:
            self.armed = False
            self.where = f"{os.path.basename(code.co_filename)}:{line}"
            self.injected += 1
            raise self.exc()

    # ---------------------------------------------------------------- running
    def lines_of(self, fn):
        """-> (number of lines of the code under test that fn() executes, outcome)"""
        self.count, self.at, self.armed = 0, None, True
        try:
            try:
                out = ("ok", fn())
            except BaseException as e:       # noqa: BLE001 -- the outcome is data here
                out = ("raised", e)
        finally:
            self.armed = False
        return self.count, out

    def interrupted(self, fn, k, exc):
        """run fn() and raise exc() at its k-th line -> ('injected', where) | ('ok', result) | ('raised', e)"""
        self.count, self.at, self.exc, self.where, self.armed = 0, k, exc, None, True
        try:
            try:
                res = fn()
                return ("ok", res)
            except exc as e:
                if self.where is not None and not self.armed:
                    return ("injected", self.where)
                return ("raised", e)
            except BaseException as e:       # noqa: BLE001
                return ("raised", e)
        finally:
            self.armed = False
            self.at = None


_FP = [None]


def get():
    if _FP[0] is None:
        _FP[0] = Failpoints()
    return _FP[0]


def points(n, limit=18):
    """which lines to interrupt at: all of a short run, else the first and last few and an even spread"""
    if n <= limit:
        return list(range(1, n + 1))
    edge = limit // 3
    mid = limit - 2 * edge
    ks = set(range(1, edge + 1)) | set(range(n - edge + 1, n + 1))
    for j in range(1, mid + 1):
        ks.add(edge + (n - 2 * edge) * j // (mid + 1))
    return sorted(k for k in ks if 1 <= k <= n)


EXCS = (KeyboardInterrupt, MemoryError)


def after_interruption(rec, prop, key, what, setup, op, later, describe=None, limit=18, max_lines=20000):
    """The history 'an operation is cut short, then valid calls follow' for one case.

    setup()       -> fresh objects (state)
    op(state)     -> the operation that gets interrupted (logically read-only on what `later` probes)
    later(state)  -> comparable outcomes of valid later calls on the same objects
    The reference is later(setup()) taken BEFORE anything was interrupted (module-level state included).
    Returns the number of interruptions made."""
    fp = get()
    if not fp.ok:
        rec.skip("failpoints: sys.monitoring not available")
        return 0
    from . import contracts

    fp.enable()
    contracts.SUSPENDED[0] += 1       # interrupted calls and probes are decided here, not by the monitors
    try:
        want = later(setup())
        n, clean = fp.lines_of(lambda: op(setup()))
        if n == 0 or n > max_lines:
            rec.skip(f"failpoints: {what}: {n} lines")
            return 0
        made = 0
        for i, k in enumerate(points(n, limit)):
            exc = EXCS[i % len(EXCS)]
            state = setup()
            out = fp.interrupted(lambda: op(state), k, exc)
            if out[0] != "injected":
                continue
            made += 1
            rec.ev()
            rec.arm("failpoint:interrupted-then-valid-calls")
            try:
                got = later(state)
            except BaseException as e:       # noqa: BLE001
                got = f"raised {type(e).__name__}: {str(e)[:80]}"
            if got != want:
                d = describe(got, want) if describe else f"{str(got)[:160]} instead of {str(want)[:160]}"
                rec.violation(prop, key, "a call that was cut short changed what later valid calls answer",
                              {"failpoint": {"what": what, "line": k, "of": n, "where": out[1], "exception": exc.__name__},
                               "summary": f"{what} interrupted by {exc.__name__} at {out[1]} (line {k} of the {n} it executes); valid calls afterwards: {d}"})
                break
        return made
    finally:
        contracts.SUSPENDED[0] -= 1
        fp.disable()
