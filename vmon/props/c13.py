"""C13 -- cloning yields an identical, independent tree and locates the cloned node."""
import random

from .. import core
from ..monitors import clonemon as MC
from ..monitors import rules as MR
from ..oracles import exact as X
from ..oracles import shadow as S
from ..workloads import drive as D
from ..workloads import exprs as WE
from ..workloads import text as WT

MANIFEST = dict(
    technique="runtime contracts on clone() and clone_from_root() (shadow incl. ids, constant types, operand sides and unary side flags; object disjointness; position of the returned node) + harness-level mutation-independence and evaluate/print equality checks",
    text="Every outermost clone()/clone_from_root() call on parsed, rewritten and constructor-built trees (one-operand nodes with the operand on either side, repeated kinds on every path) is decided at exit; the harness then evaluates and prints both trees, mutates each side through the public API while re-shadowing the other, and re-parents subtrees into new trees before cloning from the root again (stale per-node state); a clone_from_root that raises on a well-linked tree is a violation. Held on the calls observed.",
    note="Trusts our shadows; clone_from_root is exercised in its documented form (called on the node to locate).",
    ref="DESIGN.md 3/C13",
)
RULE = (
    "W3/W1 parsed trees, W7 rewritten trees, W6 constructor-built trees (every unary kind with child_on_left False/True, "
    "numpy-typed constants, raw BinaryTreeNode shapes); clone() of every subtree root sampled, clone_from_root() via every "
    "node; mutation of copy and of original.  distinct non-trivial = (tree) cloned with >= 2 nodes, or (tree, node path) "
    "located by clone_from_root below the root."
)
ASSUMPTIONS = ["bookkeeping attributes (_changed, classes, r_index, layout x/y/offset) are not part of what a clone must copy"]
SHARDS = {"quick": 8, "thorough": 16}
DEADLINE = {"quick": 50, "thorough": 420}
REQUIRED = {"clone_from_root": 2000, "clone:unary-operand-left": 20, "clone:unary-operand-right": 200, "clone:Constant": 50, "mutation:checked": 500,
            "behaviour:checked": 500, "clone_from_root:depth:3": 100, "clone:after-reparenting": 200}


def constructed(rng):
    from mathy_core import expressions as E
    import numpy as np

    C, V = E.ConstantExpression, E.VariableExpression
    for cls in (E.NegateExpression, E.FactorialExpression, E.SgnExpression, E.AbsExpression):
        for col in (False, True):
            yield cls(C(rng.randint(0, 6)), col)
            yield E.AddExpression(cls(C(3), col), E.MultiplyExpression(V("x"), cls(C(2), col)))
            yield cls(cls(C(4), col), not col)
    # the side flag given as something truthy that is not the True singleton (1, a numpy comparison, an IntEnum)
    import enum

    Side = enum.IntEnum("Side", {"RIGHT": 0, "LEFT": 1})
    for flag in (1, np.bool_(True), Side.LEFT, np.int64(1), 0, np.bool_(False), Side.RIGHT):
        yield E.FactorialExpression(C(4), flag)
        yield E.AddExpression(E.NegateExpression(V("x"), flag), E.MultiplyExpression(C(2), E.SgnExpression(C(-3), flag)))
    yield E.AddExpression(V("x"), V("x"))
    for name in ("\u03b8", "\u03c0", "_t", "xy", "X1", "1", "\u00e9", "x'"):
        yield E.AddExpression(E.MultiplyExpression(C(2), V(name)), E.PowerExpression(V(name), C(2)))
    for col in (False, True):
        yield E.MultiplyExpression(E.FactorialExpression(E.AddExpression(V("x"), C(1)), col), C(2))
        yield E.FactorialExpression(E.NegateExpression(V("x")), col)
        yield E.AddExpression(E.FactorialExpression(E.FactorialExpression(C(3), col), col), E.SgnExpression(E.MultiplyExpression(C(2), V("y"))))
        yield E.NegateExpression(E.PowerExpression(E.AbsExpression(E.SubtractExpression(V("a"), C(2))), C(2)))
    yield E.AddExpression(E.MultiplyExpression(C(3), V()), C(1))
    yield E.PowerExpression(V(None), C(2))
    yield E.AddExpression(E.NegateExpression(), C(1))
    yield E.MultiplyExpression(C(2), E.FactorialExpression(None, True))
    yield E.SgnExpression()
    # the same operand OBJECT passed for both sides of one operator (x = Variable("x"); Multiply(x, x)):
    # prints, evaluates and clones like the tree it unfolds to
    x = V("x")
    yield E.MultiplyExpression(x, x)
    x = V("x")
    yield E.AddExpression(E.MultiplyExpression(x, x), C(1))
    t = E.MultiplyExpression(C(2), V("y"))
    yield E.AddExpression(t, t)
    t = E.PowerExpression(V("z"), C(2))
    yield E.SubtractExpression(E.NegateExpression(t), E.AddExpression(t, C(3))) if False else E.DivideExpression(t, t)
    yield E.AddExpression(E.AddExpression(V("x"), V("x")), E.AddExpression(V("x"), V("x")))
    yield E.MultiplyExpression(C(np.float64(2.5)), E.PowerExpression(V("y"), C(2)))
    yield E.SubtractExpression(C(2 ** 70), C(0.1))
    yield E.EqualExpression(E.NegateExpression(V("a")), E.NegateExpression(V("a")))


def behaviour(rec, a, b, rng):
    """evaluate and print identically"""
    rec.arm("behaviour:checked")
    rec.ev()
    names = sorted(S.variables(S.shadow(a)))
    ctx = {x: rng.randint(1, 9) for x in names}
    if not D.safe_to_evaluate(a, ctx):
        rec.skip("workload: evaluation not driven (power tower)")
        return
    out = []
    for t in (a, b):
        try:
            s = str(t)
        except Exception as e:
            s = "str raised " + type(e).__name__
        try:
            v = t.evaluate(ctx)
            v = repr(v)
        except Exception as e:
            v = "evaluate raised " + type(e).__name__
        out.append((s, v))
    if out[0] != out[1]:
        rec.violation("C13", "clone/behaviour", "a clone prints or evaluates differently from the original",
                      {"tree": S.to_json(S.shadow(a)), "summary": f"original prints/evaluates {out[0]}, clone {out[1]}"})


def mutate_and_compare(rec, victim, witness_tree, rng, who):
    """mutate `victim` through the public API; `witness_tree` must not change"""
    rec.arm("mutation:checked")
    rec.ev()
    before = S.idshadow(witness_tree)
    nodes = S.nodes_preorder(victim)
    n = rng.choice(nodes)
    k = S.kind(n)
    if k == "Constant":
        n.value = 987654
    elif k == "Variable":
        n.identifier = "m"
    elif n.left is not None and n.right is not None:
        l, r = n.left, n.right
        n.set_left(r)
        n.set_right(l)
    else:
        from mathy_core.expressions import ConstantExpression

        if n.left is not None:
            n.set_left(ConstantExpression(5))
        elif n.right is not None:
            n.set_right(ConstantExpression(5))
    if S.idshadow(witness_tree) != before:
        rec.violation("C13", f"clone/dependent/{who}", "changing one tree after cloning affected the other",
                      {"tree": S.to_json(S.shadow(witness_tree)), "summary": f"mutating the {who} changed the other tree '{S.text_of(witness_tree)}'"})


def retry_after_recursion_error(rec):
    """a clone that fails for lack of stack (a very deep tree under the default recursion limit)
    must leave nothing behind: asked again with more stack, the same tree -- and its parts, and
    other trees -- clone as ever (the clone monitor decides those calls)"""
    import sys

    old = sys.getrecursionlimit()
    for terms in (700, 900):
        root = D.parse(" + ".join(f"{(i % 7) + 1}{'xyz'[i % 3]}" for i in range(terms)))
        failed = False
        sys.setrecursionlimit(1000)
        try:
            try:
                root.clone()
            except RecursionError:
                failed = True
        finally:
            sys.setrecursionlimit(old)
        rec.arm("clone:retry-after-recursion-error" if failed else "clone:deep-clone-did-not-fail")
        rec.ev()
        for what, fn in (("the same tree", lambda: root.clone()), ("a part of it", lambda: root.left.left.clone()),
                         ("clone_from_root via an inner node", lambda: root.left.right.clone_from_root()), ("another tree", lambda: D.parse("2x + 3").clone())):
            try:
                fn()
            except RecursionError:
                rec.skip("clone: deep retry beyond the monitor's own recursion budget")
            except Exception as e:
                rec.violation("C13", "clone/raises-after-an-earlier-failure", "clone raised on a sound tree after an earlier clone had failed for lack of stack",
                              {"deep_retry": True, "summary": f"a sum of {terms} terms: clone() under the default recursion limit raised RecursionError; with the limit raised, "
                               f"cloning {what} raised {type(e).__name__}: {str(e)[:80]}"})
                break


def retry_clone_from_root(rec):
    """clone_from_root via a node in the shallow part of a tree whose other part is too deep for the default
    recursion limit: the first attempt runs out of stack (after the node's own copy may already have been
    made), the caller raises the limit and asks the SAME node object again.  The answer is decided with loops
    (position of the result, size of the tree around it); the monitors are bypassed."""
    import sys
    from mathy_core.expressions import MathExpression

    f = getattr(MathExpression.clone_from_root, "__vmon_original__", MathExpression.clone_from_root)
    old = sys.getrecursionlimit()

    def count(r):
        n, stack = 0, [r]
        while stack:
            x = stack.pop()
            if x is not None:
                n += 1
                stack.append(x.left)
                stack.append(x.right)
        return n

    def path(n):
        p = []
        while n.parent is not None:
            p.append("L" if n.parent.left is n else "R")
            n = n.parent
        return p[::-1], n

    prod = " * ".join(["2"] * 600)       # products nest to the right, sums to the left
    total_sum = " + ".join(f"{(i % 7) + 1}x" for i in range(650))
    cases = [("x + " + prod, lambda t: t.left), ("(a + b) * (c - " + prod + ")", lambda t: t.left.right), (prod + " = y + 1", lambda t: t.right.left),
             ("4y^2 - " + prod, lambda t: t.left.right), ("z + (" + total_sum + ")", lambda t: t.left), ("(" + total_sum + ") * (p + q)", lambda t: t.right.left)]
    for text, pick in cases:
        tree = D.parse(text)
        node = pick(tree)
        want_path, _ = path(node)
        total = count(tree)
        outcomes = []
        for limit in (1000, 1000, max(old, 30000)):
            sys.setrecursionlimit(limit)
            try:
                res = f(node)
                outcomes.append("ok")
            except RecursionError:
                res = None
                outcomes.append("RecursionError")
            finally:
                sys.setrecursionlimit(old)
        rec.ev()
        if outcomes[0] == "RecursionError" and res is not None:
            rec.arm("clone_from_root:retry-with-more-stack")
        if res is None:
            rec.skip("clone: clone_from_root beyond the interpreter's stack even with the limit raised")
            continue
        got_path, top = path(res)
        n2 = count(top)
        if got_path != want_path or n2 != total or top is tree or res is node:
            rec.violation("C13", "clone_from_root/position", "clone_from_root does not return the copy of the node it was called on",
                          {"retry": True, "summary": f"'{text[:28]}...' ({total} nodes): clone_from_root via the node at {''.join(want_path) or 'root'} under the default recursion limit: "
                           f"{outcomes[:2]}; asked again with the limit raised it returned a node at {''.join(got_path) or 'root'} in a tree of {n2} nodes"})


def deep_clone_from_root(rec):
    """a sum of several thousand terms is a tree several thousand levels deep (the parser builds it
    with a loop); with the recursion limit raised accordingly, clone_from_root via its deepest node
    still returns that node's copy at the same depth inside a copy of the WHOLE tree.  Decided here
    by iterative walks (depth of the result, number of nodes of its tree); the monitors are bypassed."""
    import sys
    from mathy_core.expressions import MathExpression

    f = getattr(MathExpression.clone_from_root, "__vmon_original__", MathExpression.clone_from_root)
    old = sys.getrecursionlimit()
    for terms in (1500, 4300, 6000):
        root = D.parse(" + ".join(f"{(i % 9) + 1}{'xyz'[i % 3]}" for i in range(terms)))
        node = root
        depth = 0
        while node.left is not None:
            node = node.left
            depth += 1

        def count(r):
            n, stack = 0, [r]
            while stack:
                x = stack.pop()
                if x is not None:
                    n += 1
                    stack.append(x.left)
                    stack.append(x.right)
            return n

        total = count(root)
        sys.setrecursionlimit(60000)
        try:
            try:
                res = f(node)
            except RecursionError:
                rec.skip("clone: deep clone_from_root beyond the interpreter's stack")
                continue
        finally:
            sys.setrecursionlimit(old)
        rec.ev()
        rec.arm("clone_from_root:very-deep")
        up, d2 = res, 0
        while up.parent is not None:
            up = up.parent
            d2 += 1
        n2 = count(up)
        if d2 != depth or n2 != total or up is root:
            rec.violation("C13", "clone_from_root/position", "clone_from_root does not return the copy of the node it was called on",
                          {"deep": True, "summary": f"a sum of {terms} terms: clone_from_root via its deepest node (depth {depth}, tree of {total} nodes) returned a node at depth {d2} in a tree of {n2} nodes"})


def _path_in(root, node):
    """path of `node` below `root` following the child links (None when it is not reachable)"""
    stack = [(root, [])]
    while stack:
        x, p = stack.pop()
        if x is node:
            return p
        if x.right is not None:
            stack.append((x.right, p + ["R"]))
        if x.left is not None:
            stack.append((x.left, p + ["L"]))
    return None


def drive_tree(rec, root, rng, expr=True, whole=False):
    """whole=True (trees that came out of the parser or of a rule): every node reachable from `root` belongs to THAT
    tree, so clone_from_root via it must return its copy inside a complete copy of `root`'s tree -- decided here by
    the tree the caller holds, not by the node's own idea of its root"""
    import gc

    if whole:
        gc.collect()        # whatever the rewrite dropped is really gone by now
    nodes = S.nodes_preorder(root)
    whole_shadow = S.shadow(root) if whole else None
    # clone of the whole tree and of a few subtrees
    try:
        c = root.clone()
    except RecursionError:
        return
    except Exception:
        return   # decided (and reported) by the clone monitor
    if expr:
        behaviour(rec, root, c, rng)
    for n in rng.sample(nodes, min(3, len(nodes))):
        n.clone()
    if expr:
        # clone_from_root via every node
        for n in nodes if len(nodes) <= 40 else rng.sample(nodes, 40):
            try:
                r_ = n.clone_from_root()
            except Exception:
                continue
            if whole_shadow is not None:
                rec.ev()
                rec.arm("clone_from_root:inside-the-whole-tree-the-caller-holds")
                try:
                    top = S.root_of(r_)
                    ok = S.shadow(top) == whole_shadow and S.path_from_root(r_) == _path_in(root, n)
                except Exception:
                    ok = True
                if not ok:
                    rec.violation("C13", "clone_from_root/position", "clone_from_root does not return the copy of the node it was called on",
                                  {"tree": S.to_json(S.shadow(root)), "whole": True,
                                   "summary": f"'{S.text_of(root)}': clone_from_root via the node '{S.text_of(n)}' returned a node inside '{S.text_of(top)}', not inside a copy of the whole tree"})
                    break
        # independence both ways (on throw-away copies)
        a = root.clone()
        b = a.clone()
        mutate_and_compare(rec, b, a, rng, "copy")
        a2 = root.clone()
        b2 = a2.clone()
        mutate_and_compare(rec, a2, b2, rng, "original")
        n = rng.choice(nodes)
        try:
            copy_node = n.clone_from_root()
            mutate_and_compare(rec, S.root_of(copy_node), root, rng, "copy")
        except Exception:
            pass
        # a tree under construction / repair: a one-operand node whose operand has been taken out
        # (or was never given) is cloned as it is -- the copy is the same hole-y tree, and filling
        # the hole afterwards gives the same tree on both
        from mathy_core import expressions as _E

        hole = root.clone()
        unary = [x for x in S.nodes_preorder(hole) if isinstance(x, _E.UnaryExpression) and x.get_child() is not None]
        if unary:
            u = rng.choice(unary)
            try:
                if u.left is not None:
                    u.set_left(None, clear_old_child_parent=True)
                else:
                    u.set_right(None, clear_old_child_parent=True)
                rec.arm("clone:unary-without-operand")
                snap = hole.clone()
                twin = [x for x, y in zip(S.nodes_preorder(snap), S.nodes_preorder(hole)) if y is u]
                if twin:
                    for node in (u, twin[0]):
                        node.set_child(_E.VariableExpression("h"))
                    rec.ev()
                    if S.shadow(snap) != S.shadow(hole):
                        rec.violation("C13", "clone/operand-side", "a one-operand node lost the side its operand is on",
                                      {"tree": S.to_json(S.shadow(root)), "summary": f"'{S.text_of(root)}': the operand of a {type(u).__name__} was taken out, the tree cloned, and the same "
                                       f"operand put back with set_child on both: original '{S.text_of(hole)}' (operand {'left' if u.left is not None else 'right'}), "
                                       f"copy has it on the {'left' if twin[0].left is not None else 'right'}"})
            except Exception:
                pass
        # re-parent a subtree of a throw-away copy into a NEW tree and clone from the root via
        # its nodes again: whatever a node remembered from the earlier calls is stale now
        from mathy_core import expressions as E
        from mathy_core.util import unlink

        work = root.clone()
        wn = S.nodes_preorder(work)
        for x in rng.sample(wn, min(len(wn), 8)):
            try:
                x.clone_from_root()
                x.get_root()
            except Exception:
                pass
        inner = [x for x in wn if x.parent is not None]
        if inner and rng.random() < 0.6:
            sub = rng.choice(inner)
            unlink(sub)
            new_root = (E.SubtractExpression(sub, E.ConstantExpression(7)) if rng.random() < 0.5
                        else E.MultiplyExpression(E.VariableExpression("w"), sub))
            rec.arm("clone:after-reparenting")
            for x in S.nodes_preorder(sub)[:6]:
                try:
                    x.clone_from_root()
                except Exception:
                    pass
            new_root.clone()


def run(rec, cfg):
    rec.accept = {"clone", "cfr"}
    MC.attach_clone("C13")
    rng = cfg.rng("c13")
    from ..workloads import interrupted as _INT

    if cfg.shard == 6 % cfg.nshards:
        _INT.clone_cases(rec, "C13")
    rules = MR.rule_instances()
    corp = WT.corpus()
    if cfg.shard == 3 % cfg.nshards:
        retry_after_recursion_error(rec)
    if cfg.shard == 4 % cfg.nshards:
        deep_clone_from_root(rec)
        retry_clone_from_root(rec)
    if cfg.shard == 0 or True:
        for t in constructed(rng):
            rec.arm("start:constructed")
            drive_tree(rec, t, rng)
    # raw BinaryTreeNode shapes
    from mathy_core.tree import BinaryTreeNode
    from ..workloads import shapes as W9

    for i, s in enumerate(W9.all_shapes_upto(cfg.scale(5, 7))):
        if cfg.mine(i):
            t = W9.build(s, lambda l, r, i: BinaryTreeNode(l, r))
            t.clone()
            rec.arm("start:raw-shape")
    from . import _rulecommon as RC

    for i, t in enumerate(RC.long_texts()):
        if cfg.mine(i):
            try:
                root = D.parse(t)
            except Exception:
                continue
            root.clone()
            nodes = S.nodes_preorder(root)
            for x in rng.sample(nodes, 12) + [nodes[-1]]:
                try:
                    x.clone_from_root()
                except Exception:
                    pass
            rec.arm("start:long")
    n = cfg.scale(350, 30000)
    for i in range(n):
        if cfg.out_of_time():
            rec.truncated = True
            break
        c = rng.random()
        text = rng.choice(corp) if c < 0.2 else WE.random_expr(rng) if c < 0.6 else WT.gen_text(rng, max_depth=3)
        try:
            root = D.parse(text)
        except Exception:
            continue
        if S.size(S.shadow(root)) > 120:
            continue
        rec.arm("start:parsed")
        drive_tree(rec, root, rng, whole=True)
        if rng.random() < 0.3 and not D.too_big(S.shadow(root)):
            for label, idx, new_root in D.apply_everywhere(rec, root, rules, rng, cap=1)[:3]:
                if new_root is not None and not D.too_big(S.shadow(new_root)):
                    rec.arm("start:rewritten")
                    drive_tree(rec, new_root, rng, whole=True)
        if rng.random() < 0.01:
            rec.sample({"text": text[:100]})


def replay(rec, cfg, w):
    if "failpoint" in w:
        from ..workloads import interrupted as _INT

        _INT.clone_cases(rec, "C13")      # deterministic: the whole family of cases is run again
        return
    if w.get("retry"):
        retry_clone_from_root(rec)
        return
    if w.get("deep"):
        deep_clone_from_root(rec)
        return
    if w.get("deep_retry"):
        MC.attach_clone("C13")
        retry_after_recursion_error(rec)
        return
    MC.attach_clone("C13")
    root = S.build(S.from_json(w["tree"]))
    ids = w.get("ids_preorder")
    if ids:
        for n, i in zip(S.nodes_preorder(root), ids):
            n.id = i
    drive_tree(rec, root, cfg.rng("replay"))
    if w.get("node_path") is not None:
        n = S.follow(root, list(w["node_path"]))
        if n is not None:
            n.clone_from_root()
