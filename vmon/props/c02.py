"""C02 -- rewrites preserve the solution set of equations."""
from .. import core
from ..monitors import rules as MR
from ..oracles import shadow as S
from ..workloads import drive as D
from ..workloads import exprs as WE
from . import _rulecommon as RC

MANIFEST = dict(
    technique="runtime contract on apply_to (entry shadow, exit truth-value comparison of the two equations by an exact rational evaluator at random points and at solved witnesses; structural side conditions of balanced move); equation workloads built around known solutions",
    text="Every rule application on a tree whose root is '=' is decided at exit: the result must be an equation; at every sampled assignment and at witnesses that solve the before- or the after-equation (solved affine roots, workload-supplied solutions) both equations have the same truth value; a balanced addition move must move a top-level addend (ancestors below the root are + or the left of -) and a balanced division never has the constant 0 as divisor. In-place chains (several rules applied to one tree object without re-cloning) are compared with the start equation after every step. Float folds are made exact by working out the rational each new float constant stands for. Held on the applications observed.",
    note="Trusts the exact evaluator; solution-set equality is sampled (random rational points + witnesses), not proved; equations without any witness found are counted as inconclusive.",
    ref="DESIGN.md 3/C02",
)
RULE = (
    "Equation templates (addend/coefficient moves with the moved term nested under products, quotients, powers, negation, "
    "subtrahends, sgn), corpus equations, generated expressions turned into equations around an integer solution; all 11 "
    "rule instances at up to 8 matches, then again on the rewritten equations (depth 3).  distinct non-trivial = (rule, "
    "arm, input tree, node) whose tree changed, with >= 3 comparable points and >= 1 witness satisfying the original equation."
)
ASSUMPTIONS = ["witnesses: roots of L-R when affine in one variable (others fixed), plus the solution the workload built the equation around",
               "tolerance 1e-9*scale only after a floating-point fold; dead band between 1e-9 and 1e-6 is skipped"]
SHARDS = {"quick": 8, "thorough": 16}
DEADLINE = {"quick": 55, "thorough": 480}


def REQUIRED(tier):
    return {"apply:BM/TYPE_ADDITION": 50, "apply:BM/TYPE_CONST_OF_MULTIPLY": 20, "apply:CS/equation-flip": 20, "equation:compared": 1000,
            "equation:nontrivial:BM/TYPE_ADDITION": 20, "equation:nontrivial:BM/TYPE_CONST_OF_MULTIPLY": 10,
            "equation:nontrivial:CS/equation-flip": 10, "apply:CA/simple": 20, "apply:DF/simple": 10, "apply:RS/subtraction": 5,
            "apply:DM/sum-on-right": 3, "apply:VM/simple": 3, "apply:MI/division-expression": 3, "apply:AG/add-left-child": 3, "chain:steps-compared": 200}


def equations(cfg, rng, n):
    from ..workloads import text as WT
    from ..oracles import exact as X
    from fractions import Fraction

    corp = [s for s in WT.corpus() if "=" in s]
    for i, s in enumerate(corp):
        if cfg.mine(i):
            yield "corpus", s, []
    # every guaranteed arm / edge / near-miss text as ONE SIDE of an equation whose other side is a
    # fresh variable: 'rewriting inside one side' for every rule arm, with a witness for free
    # (the equation is affine in the fresh variable)
    k = 0
    for t in RC.ARM_TEXTS + RC.EDGE_TEXTS + [v for a in RC.ARM_TEXTS for v in WE.substituted(a)]:
        if "=" in t:
            continue
        k += 1
        if not cfg.mine(k):
            continue
        fresh = next(ch for ch in "wktmhjrvdl" if ch not in t)
        yield "side-of-equation", (f"{t} = {fresh}" if k % 2 else f"{fresh} = {t}"), []
    # the edge texts that ARE equations
    for t in RC.EDGE_TEXTS:
        if "=" in t:
            k += 1
            if cfg.mine(k):
                yield "edge-equation", t, []
    for i in range(n):
        c = rng.random()
        if c < 0.6:
            s, h = WE.equation(rng)
            yield "template", s, h
        elif c < 0.85:
            # expression = expression (+ k so that an integer assignment solves it)
            a, b = WE.random_expr(rng), WE.random_expr(rng)
            if "=" in a or "=" in b:
                continue
            yield "random-sides", f"{a} = {b}", []
        else:
            a = WE.poly_expr(rng, rng.randint(2, 4))
            yield "poly", f"{a} = {rng.randint(-9, 30)}", []


def inplace_equation_chain(rec, root, rules, rng, text, hints):
    """Rules applied one after the other to ONE equation tree object (no clone between the
    steps).  After every step the tree that the step hands back must still be an equation with
    the start's solution set: a step that leaves a stale parent pointer behind lets the next
    step cut the equation apart."""
    import random as _r
    from . import c09

    start_sh = S.shadow(root)
    crng = _r.Random(core.h64(("c02-chain", text)))
    state = {"bad": False}

    def on_step(cur, done):
        rec.ev()
        rec.arm("chain:steps-compared")
        cur_sh = S.shadow(cur)
        v, d = c09.compare_with_start(rec, start_sh, cur_sh, MR.EPISODE["folded"], hints, crng)
        if v == "diff":
            rec.violation("C02", f"chain/{done[-1][0]}/{'not-an-equation' if 'equation' in d else 'solutions'}",
                          "after a sequence of in-place rewrites the tree handed back is no longer an equation equivalent to the start",
                          {"start": text, "steps": list(done), "current": S.text_of(cur), "detail": d,
                           "summary": f"in-place chain from '{text}' steps {done[-6:]}: '{S.text_of(cur)}' {d}"})
            state["bad"] = True
            return False
        return True

    D.inplace_chain(rec, root, rules, rng, steps=rng.randint(2, 6), on_step=on_step)


ZERO_COEFFICIENTS = ["0.0^2 * x = 0", "(4^0.5 - 2) * x = 0", "10^-400 * x = 0", "(0.5 - 0.5) * y = 0", "0^2.0 * z = 4 - 4", "(2^-1 - 0.5)y = 0", "0x = 0", "0.0z = 0",
                     "(9^0.5 - 3) * x = 5 - 5", "x * (1 - 1) = 0", "(0.1 + 0.2 - 0.3) * 0 * x = 0", "2^0.5 * 0 * x = 0", "(8^(1 / 3) - 2)x = 0"]


def fold_then_move(rec, rules, rng):
    """a coefficient that BECOMES zero: constant arithmetic folds everything it can on the live tree (powers
    with float operands leave numpy scalars, and numpy's 0.0 == 0 is numpy's own True, not Python's), then
    balanced move is asked about every node and applied wherever it says it can -- 'never divides both sides by
    zero' is decided by the monitor on those applications"""
    by = dict(rules)
    ca, bm = by.get("CA"), by.get("BM")
    if ca is None or bm is None:
        return
    for text in ZERO_COEFFICIENTS:
        root = RC.parse_start(text)
        if root is None:
            continue
        for _ in range(8):
            try:
                nodes = ca.find_nodes(root)
                if not nodes:
                    break
                root = S.root_of(ca.apply_to(nodes[-1]).result)
            except Exception:
                break
        rec.arm("start:coefficient-folded-to-zero")
        D.apply_everywhere(rec, root, [("BM", bm)], rng, cap=12)
        try:
            for n in bm.find_nodes(root):
                t = n.clone_from_root()
                bm.apply_to(t)
        except Exception:
            pass


def run(rec, cfg):
    rec.accept = {"equation"}
    MR.CHECKS.update({"equation"})
    MR.attach_apply()
    rng = cfg.rng("c02")
    from ..workloads import interrupted as _INT

    if cfg.shard == 6 % cfg.nshards:
        _INT.balanced_move_cases(rec, "C02")
    rules = MR.rule_instances()
    n = cfg.scale(60, 40000)
    if cfg.shard == 5 % cfg.nshards:
        RC.wide_ints(rec, rules)
    if cfg.shard == 4 % cfg.nshards:
        fold_then_move(rec, rules, rng)
    for src, text, hints in equations(cfg, rng, n):
        if cfg.out_of_time():
            rec.truncated = True
            break
        root = RC.parse_start(text)
        if root is None or S.kind(root) != "Equal":
            continue
        rec.arm("start:" + src)
        MR.HINTS[:] = hints
        if D._small(root, 25) and (src in ("side-of-equation", "edge-equation") or rng.random() < 0.5):
            D.inplace_pairs(rec, root, rules, rng, first=10 if src != "template" else 6, second=8 if src != "template" else 4)
        if rng.random() < 0.5:
            inplace_equation_chain(rec, root, rules, rng, text, hints)
        if rng.random() < 0.6:
            D.apply_from_subtree_listing(rec, root, [(l, r) for l, r in rules if l in ("BM", "CA", "DF", "VM", "CS")], rng)
        frontier = [root]
        for depth in range(3):
            nxt = []
            for r in frontier:
                for label, idx, new_root in D.apply_everywhere(rec, r, rules, rng, cap=8 if depth == 0 else 2):
                    if new_root is not None and not D.too_big(S.shadow(new_root)) and S.kind(new_root) == "Equal":
                        nxt.append(new_root)
            if not nxt:
                break
            frontier = rng.sample(nxt, min(len(nxt), 3 if depth == 0 else 2))
        MR.HINTS[:] = []
        if rng.random() < 0.01:
            rec.sample({"source": src, "equation": text[:120], "solution_hint": [ {k: str(v) for k, v in h.items()} for h in hints]})


def replay(rec, cfg, w):
    if "failpoint" in w:
        from ..workloads import interrupted as _INT

        _INT.balanced_move_cases(rec, "C02")      # deterministic: the whole family of cases is run again
        return
    MR.CHECKS.update({"equation"})
    MR.attach_apply()
    D.replay_apply(w)
