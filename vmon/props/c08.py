"""C08 -- each rule performs its documented transformation on its documented forms."""
import itertools
import random
from fractions import Fraction

from .. import core
from ..monitors import rules as MR
from ..oracles import acnf as A
from ..oracles import exact as X
from ..oracles import shadow as S
from ..workloads import drive as D

MANIFEST = dict(
    technique="schema monitor: documented rule schemas are instantiated over coefficient/variable/exponent classes, embedded in 26 surrounding contexts, and every can_apply_to answer and apply_to result on the schema's own subtree is compared with the documented shape built independently (AC-normal form for + and *)",
    text="For every instance the rule must accept the schema's subtree (wherever that subtree survives parsing inside the context) and the rewritten subtree must have the documented shape up to order/grouping of + and * operands and up to the numeric common factor; documented non-applicable forms must be refused. Instances are generated, not enumerated; held on the instances observed, with the one recorded finding that restate-subtraction refuses 'a - b' unless its parent is +, = or absent.",
    note="Trusts our reading of the rule documentation (docstrings, rules/*.md, *.test.json) as written down in DESIGN.md 3/C08 and the AC-normal form.",
    ref="DESIGN.md 3/C08",
)
RULE = (
    "W4: schemas {a+b, a*b swap; (a+b)+c / a+(b+c) regroup (+ and *); c1 op c2 fold; c1 x^n + c2 x^n factor; a(b+c) and (b+c)a "
    "distribute; a/b and a/-b inverse; a-b forms and a + -c forms restate; c1 x^a * c2 x^b; L + t = R and c x = R balanced move} "
    "x coefficient classes (absent, ints, decimals, negatives) x variables x exponent classes (absent, ints, 0, negative, decimal) "
    "x 26 contexts, plus documented negatives.  distinct non-trivial = (schema, instance text, context) accepted with a changed "
    "subtree of the documented shape, or a documented negative that was refused."
)
ASSUMPTIONS = ["documented shapes as listed in DESIGN.md 3/C08", "restate 'back' direction covers the documented negative-constant forms a + -c, a + -cx, a + -cx^n"]
SHARDS = {"quick": 8, "thorough": 16}
DEADLINE = {"quick": 50, "thorough": 420}
SCHEMAS = ["CS+", "CS*", "CS-neg", "CS:np-neg", "AG+", "AG*", "AG-neg", "CA+", "CA-", "CA*", "CA/", "DF", "DF-neg", "DF:c", "DM", "MI", "MI-neg-denominator",
           "RS-sub", "RS-back", "VM", "VM-neg", "BM-add", "BM-mul", "BM-neg"]


def REQUIRED(tier):
    req = {}
    for s in SCHEMAS:
        req[("schema-ok:" if not s.endswith("-neg") else "schema-refused-ok:") + s] = 10
    req["schema:reached-in-place"] = 300
    req["schema:reached-by-folding"] = 100
    req["schema:all-rules-listed-before-the-verdict"] = 300
    req["schema:target-has-a-twin-with-the-same-ids"] = 100
    req["schema:asked-under-numpy-invalid-raise"] = 300
    return req


CONTEXTS = ["{}", "{} + q", "q + ({})", "({}) - q", "q - ({})", "({}) * q", "q * ({})", "({}) / q", "q / ({})", "({})^2", "q^({})", "-({})", "sgn({})",
            "{} = q", "q = {}", "(q + ({})) + r", "q * ({}) * r", "r + q * ({})", "2({})", "({})(q + 1)", "3 + ({}) = r", "({}) / 4 - 2", "7 - ({})",
            "1 / ({})", "(({}))", "r - (q - ({}))"]
EQ_CONTEXTS = ["{}"]

COEFS = ["", "2", "3", "12", "0.5", "2.5", "-1", "-3", "0.25", "7", "1", "-0.5", "10", "100"]
POSC = ["2", "3", "4", "6", "7", "12", "0.5", "2.5", "10", "1", "0.25", "36"]
EXPS = ["", "^2", "^3", "^0", "^-2", "^0.5", "^1", "^2.5", "^10"]
VARS = "xyzab"


def vs(text):
    return A.v(S.shadow(D.parse(text)))


def locate(root, want):
    for n in S.nodes_preorder(root):
        if A.v(S.shadow(n)) == want:
            return n
    return None


def subtree_after(new_root, path):
    return S.follow(new_root, path)


def value_equal(a, b, rng, tolerant=True):
    names = S.variables(a) | S.variables(b)
    sig = X.assignments(names, rng)
    r = X.compare_values(_tag(a), _tag(b), sig, tolerant)
    return not r["diffs"] and r["common"] >= 1


def _tag(s):
    """value-level shadow -> evaluator shadow"""
    if s is None:
        return None
    k, p, l, r = s
    if k == "Constant":
        p = ("bu:float", p)
    return (k, p, _tag(l), _tag(r))


class Inst:
    """One schema instance.  `kind` + `params` (JSON-able) determine the expected shape and the
    target node, so that a witness can be re-driven exactly (see `rebuild`)."""

    def __init__(self, schema, rule, text, kind, params=None, applicable=True, contexts=None):
        self.schema, self.rule, self.text, self.kind, self.params, self.applicable = schema, rule, text, kind, params or {}, applicable
        self.expect, self.target = EXPECT[kind](self.params) if kind in EXPECT else (None, None)
        if kind in TARGET_ONLY:
            self.target = TARGET_ONLY[kind](self.params)
        self.contexts = contexts or CONTEXTS


def rebuild(w):
    return Inst(w["schema"], w["rule"], w["text"], w["kind"], w.get("params"), w.get("applicable", True), [w["context"]])


def classify_refusal(inst, node):
    parent = S.kind(node.parent) if node.parent is not None else "root"
    if inst.schema == "RS-sub" and parent not in ("Add", "Equal", "root"):
        return "schema-refused/RS/a-b/parent-not-add-equal-root"
    return f"schema-refused/{inst.schema}/parent-{parent}"


_LISTERS = []
FORCE = {"via": False, "hostile": False, "fold": False, "rename": False}


def reached_in_place(rec, root, rng):
    """The same tree OBJECTS reach the schema shape by way of another shape: one commutative node is
    swapped in place, every rule lists its applicable nodes on that intermediate tree (the agent's
    listing step -- whatever a rule or a helper remembers about these node objects is remembered
    now), and the node is swapped back.  Returns the root of the restored tree, or None when the
    detour did not come back to the same structure (then the instance is driven on a fresh parse)."""
    import mathy_core.rules as R

    if not _LISTERS:
        _LISTERS.extend(r for _, r in MR.rule_instances())
    before = S.shadow(root)
    cs = R.CommutativeSwapRule(preferred=False)
    try:
        cands = [m for m in S.nodes_preorder(root) if S.kind(m) in ("Add", "Multiply") and cs.can_apply_to(m)]
        if not cands:
            return None
        m = rng.choice(cands)
        path = S.path_from_root(m)
        mid = S.root_of(cs.apply_to(m).result)
        if S.shadow(mid) == before:
            return None
        for rule in _LISTERS:
            rule.find_nodes(mid)
        m2 = S.follow(mid, path)
        if m2 is None or not cs.can_apply_to(m2):
            return None
        back = S.root_of(cs.apply_to(m2).result)
        if S.shadow(back) != before:
            return None
        rec.arm("schema:reached-in-place")
        return back
    except Exception:
        return None


_FOLDS = {"^2": "^(4^0.5)", "^3": "^(9^0.5)", "^0.5": "^(2^-1)", "^10": "^(100^0.5)", "^2.5": "^(6.25^0.5)", "^1": "^(1^0.5)"}


def reached_by_folding(rec, full, rng):
    """The same tree SHAPE with numpy-typed numbers in it: exponents are first written as constant
    powers (x^(4^0.5), x^(2^-1)) and folded by constant arithmetic, which leaves numpy scalars
    (np.float64(2.0), np.float64(0.5)) where a parsed text has Python numbers.  Returns the folded
    root, or None when the detour does not end in the same value-level tree as parsing `full`."""
    import re
    import mathy_core.rules as R
    from mathy_core import expressions as E

    hits = [m for m in re.finditer(r"\^(-?[0-9.]+)", full) if "^" + m.group(1) in _FOLDS and (m.start() > 0 and full[m.start() - 1].isalpha())]
    if not hits:
        return None
    chosen = [m for m in hits if rng.random() < 0.7] or hits[:1]
    text = full
    for m in reversed(chosen):
        text = text[: m.start()] + _FOLDS["^" + m.group(1)] + text[m.end():]
    try:
        want = vs(full)
        root = D.parse(text)
        ca = R.ConstantsSimplifyRule()
        for _ in range(12):
            pw = [n for n in S.nodes_preorder(root) if isinstance(n, E.PowerExpression) and isinstance(n.left, E.ConstantExpression)
                  and isinstance(n.right, E.ConstantExpression) and isinstance(n.parent, E.PowerExpression) and n.parent.right is n and ca.can_apply_to(n)]
            if not pw:
                break
            root = S.root_of(ca.apply_to(pw[0]).result)
        if A.v(S.shadow(root)) != want:
            return None
        rec.arm("schema:reached-by-folding")
        return root
    except Exception:
        return None


def reached_by_multiplying(rec, full, rng):
    """The same tree reached by rewriting IN PLACE inside it: one power v^k is first written as the product
    (v * v^(k-1)), which Variable Multiplication turns into v^(1 + (k-1)) and Constant Arithmetic into v^k --
    each rule replacing an operand of a node that stays (a negation, a coefficient product, a sum).  Whatever a
    node remembers about its operands from before is stale by then.  Returns the rewritten root, or None when
    the detour does not end in the same value-level tree as parsing `full`."""
    import re
    import mathy_core.rules as R
    from mathy_core import expressions as E

    hits = [m for m in re.finditer(r"([a-zA-Z])\^([2-9])(?![0-9.])", full)]
    if not hits:
        return None
    m = rng.choice(hits)
    v, k = m.group(1), int(m.group(2))
    text = full[: m.start()] + (f"({v} * {v}^{k - 1})" if k > 2 else f"({v} * {v})") + full[m.end():]
    try:
        want = vs(full)
        root = D.parse(text)
        vm, ca = R.VariableMultiplyRule(), R.ConstantsSimplifyRule()
        prods = [n for n in S.nodes_preorder(root) if isinstance(n, E.MultiplyExpression) and isinstance(n.left, E.VariableExpression) and n.left.identifier == v
                 and (isinstance(n.right, E.VariableExpression) or (isinstance(n.right, E.PowerExpression) and isinstance(n.right.left, E.VariableExpression)))
                 and vm.can_apply_to(n)]
        if not prods:
            return None
        root = S.root_of(vm.apply_to(prods[0]).result)
        sums = [n for n in S.nodes_preorder(root) if isinstance(n, E.AddExpression) and isinstance(n.left, E.ConstantExpression) and isinstance(n.right, E.ConstantExpression)
                and isinstance(n.parent, E.PowerExpression) and n.parent.right is n and ca.can_apply_to(n)]
        if not sums:
            return None
        root = S.root_of(ca.apply_to(sums[0]).result)
        if A.v(S.shadow(root)) != want:
            return None
        rec.arm("schema:reached-by-rewriting-inside-the-tree")
        return root
    except Exception:
        return None


def _short_names(o):
    if isinstance(o, str):
        return o[0] if len(o) == 3 and o[2] == "k" and o[1] == o[0].swapcase() and o[0].isalpha() else o
    if isinstance(o, tuple):
        return tuple(_short_names(x) for x in o)
    if isinstance(o, list):
        return [_short_names(x) for x in o]
    return o


def run_instance(rec, inst, rng, ctx_sample):
    try:
        want = vs(inst.text)
    except Exception:
        rec.skip("schema text does not parse")
        return
    rule = MR.make_rule(inst.rule)
    for ctx in ctx_sample:
        full = ctx.format(inst.text)
        try:
            root = D.parse(full)
        except Exception:
            rec.skip("context does not parse")
            continue
        via = None
        folded = None
        if FORCE.get("fold") or rng.random() < 0.25:
            folded = reached_by_folding(rec, full, rng)
            if folded is not None:
                root = folded
        mult = None
        if folded is None and (FORCE.get("mult") or rng.random() < 0.3):
            mult = reached_by_multiplying(rec, full, rng)
            if mult is not None:
                root = mult
        if folded is None and mult is None and (FORCE["via"] or rng.random() < 0.3):
            via = reached_in_place(rec, root, rng)
            if via is not None:
                root = via
            else:
                root = D.parse(full)
        if rng.random() < 0.35:
            # "list the valid moves of every rule" on this very tree first (pure questions)
            if not _LISTERS:
                _LISTERS.extend(r for _, r in MR.rule_instances())
            for lister in _LISTERS:
                try:
                    lister.find_nodes(root)
                except Exception:
                    pass
            rec.arm("schema:all-rules-listed-before-the-verdict")
        want_here = want
        renamed = False
        if FORCE["rename"] or rng.random() < 0.2:
            # 'all variables': names of several letters (theta, x1-style identifiers exist only through the node
            # constructors), every node holding its own str object built at run time -- equal names, distinct objects
            from mathy_core.expressions import VariableExpression as _V

            def long_name(letter):
                return "".join((letter, letter.swapcase(), "k"))

            for nd in S.nodes_preorder(root):
                if isinstance(nd, _V) and isinstance(nd.identifier, str) and len(nd.identifier) == 1:
                    nd.identifier = long_name(nd.identifier)

            def ren(sh):
                if sh is None:
                    return None
                k_, p_, l_, r_ = sh
                if k_ == "Variable" and isinstance(p_, str) and len(p_) == 1:
                    p_ = long_name(p_)
                return (k_, p_, ren(l_), ren(r_))

            want_here = ren(want)
            renamed = True
            rec.arm("schema:variables-with-long-run-time-built-names")
        outer = locate(root, want_here)
        if outer is None:
            rec.skip("schema subtree did not survive parsing in this context")
            continue
        node = inst.target(outer) if inst.target else outer
        if node is None:
            rec.skip("target not found")
            continue
        if isinstance(inst.params, dict) and inst.params.get("twin"):
            shape = S.vshadow(node)
            others = [m for m in S.nodes_preorder(root) if m is not node and S.vshadow(m) == shape]
            for other in others:
                for a_, b_ in zip(S.nodes_preorder(node), S.nodes_preorder(other)):
                    b_.id = a_.id
            if others:
                rec.arm("schema:target-has-a-twin-with-the-same-ids")
        rec.ev()
        hostile = FORCE["hostile"] or rng.random() < 0.25
        w0 = {"schema": inst.schema, "rule": inst.rule, "text": inst.text, "context": ctx, "full": full, "kind": inst.kind, "params": inst.params,
              "applicable": inst.applicable}
        try:
            if hostile:
                # the caller's own numpy settings are part of the environment: with floating-point
                # 'invalid' errors turned into exceptions (ordinary practice when hunting NaNs) the
                # applicability question must still be answered
                import numpy as np

                rec.arm("schema:asked-under-numpy-invalid-raise")
                with np.errstate(invalid="raise"):
                    ok = bool(rule.can_apply_to(node))
            else:
                ok = bool(rule.can_apply_to(node))
        except Exception as e:
            w0["numpy_invalid_raise"] = hostile
            w0["summary"] = f"{inst.rule}.can_apply_to raised {type(e).__name__} on '{inst.text}' in '{full}'" + (" (numpy invalid='raise' active in the caller)" if hostile else "")
            rec.violation("C08", f"schema-raises/{inst.schema}/{type(e).__name__}", "applying a documented schema instance raised", w0)
            continue
        w = {"schema": inst.schema, "rule": inst.rule, "text": inst.text, "context": ctx, "full": full, "kind": inst.kind, "params": inst.params,
             "applicable": inst.applicable}
        if mult is not None:
            w["reached_by_multiplying"] = True
        if renamed:
            w["renamed"] = True
        if via is not None:
            w["reached_in_place"] = True
        if folded is not None:
            w["reached_by_folding"] = True
        if not inst.applicable:
            if ok:
                w["summary"] = f"{inst.rule} accepts the documented non-applicable form '{inst.text}' in '{full}'"
                rec.violation("C08", f"schema-accepted-nonapplicable/{inst.schema}", "a documented non-applicable form is accepted", w)
            else:
                rec.arm("schema-refused-ok:" + inst.schema)
                rec.nontrivial(("schema", inst.schema, inst.text, ctx))
            continue
        if not ok:
            w["summary"] = f"{inst.rule} refuses the documented form '{inst.text}' in '{full}' (parent {S.kind(node.parent) if node.parent is not None else 'root'})"
            rec.violation("C08", classify_refusal(inst, node), "a documented schema instance is refused", w)
            continue
        path = S.path_from_root(outer)
        if inst.schema.startswith("BM"):
            path = []
        copy = node.clone_from_root()
        try:
            change = rule.apply_to(copy)
            new_root = S.root_of(change.result)
        except Exception as e:
            w["summary"] = f"{inst.rule} raised {type(e).__name__} on '{inst.text}' in '{full}'"
            rec.violation("C08", f"schema-raises/{inst.schema}/{type(e).__name__}", "applying a documented schema instance raised", w)
            continue
        sub = subtree_after(new_root, path)
        got = A.v(S.shadow(sub)) if sub is not None else None
        if got is None:
            verdict = "rewritten subtree not found at the original position"
        else:
            whole_before = A.v(S.shadow(root))
            if renamed:
                # the documented shapes are written with the instance's own letters: names mapped back before judging
                got, whole_before = _short_names(got), _short_names(whole_before)
            verdict = inst.expect(want, got, rng) if not inst.schema.startswith("BM") else inst.expect(whole_before, got, rng)
        if verdict == "ok":
            rec.arm("schema-ok:" + inst.schema)
            rec.arm("schema-ctx:" + ctx)
            rec.nontrivial(("schema", inst.schema, inst.text, ctx))
        else:
            w["after"] = S.text_of(new_root)
            w["summary"] = f"{inst.rule} on '{inst.text}' in '{full}' -> '{S.text_of(new_root)}': {verdict}"
            rec.violation("C08", f"schema-shape/{inst.schema}/{verdict.split(':')[0][:40]}", "the result does not have the documented shape", w)


# ------------------------------------------------------------------ schema generators

def term(rng, var=None, coef=None, exp=None):
    c = rng.choice(COEFS) if coef is None else coef
    v = var or rng.choice(VARS)
    e = rng.choice(EXPS) if exp is None else exp
    return f"{c}{v}{e}"


def operand(rng):
    c = rng.random()
    if c < 0.35:
        return term(rng)
    if c < 0.5:
        return rng.choice(VARS)
    if c < 0.65:
        return rng.choice(POSC)
    if c < 0.8:
        return f"({term(rng)} + {rng.choice(POSC)})"
    if c < 0.9:
        return f"({term(rng)} - {rng.choice(VARS)})"
    return f"sgn({rng.choice(VARS)})"


def _exp_cs(p):
    K = p["K"]
    eq = A.acnf

    def exp(w, g, r):
        if w[2][0] != K:
            return "ok" if g == (K, None, w[3], w[2]) else "WRONG: operands not swapped"
        if eq(w) != eq(g):
            return "WRONG: operands changed"
        if g != w or w[2][3] == w[3]:
            return "ok"
        return "WRONG: nothing was swapped"

    return exp, None


def _exp_ag(p):
    K, side = p["K"], p["side"]

    def exp(w, g, r):
        if side == "L":  # (a op b) op c -> a op (b op c)
            a_, b_, c_ = w[2][2], w[2][3], w[3]
            return "ok" if g == (K, None, a_, (K, None, b_, c_)) else "WRONG: not regrouped as documented"
        a_, b_, c_ = w[2], w[3][2], w[3][3]
        return "ok" if g == (K, None, (K, None, a_, b_), c_) else "WRONG: not regrouped as documented"

    return exp, (lambda o: o.left) if side == "L" else (lambda o: o.right)


def _exp_ca(p):
    op = p["op"]
    f = {"+": lambda x, y: x + y, "-": lambda x, y: x - y, "*": lambda x, y: x * y, "/": lambda x, y: x / y if y else None}[op]

    def exp(w, g, r):
        if g[0] != "Constant":
            return "NOT-A-CONSTANT: result is not a single constant"
        val = f(w[2][1], w[3][1])
        if val is None or not isinstance(g[1], Fraction):
            return "WRONG-VALUE: non-finite"
        # the operands are doubles (their exact values are in the shadow): the fold is the correctly
        # rounded result of ONE floating-point operation on them, i.e. within 2^-52 of the exact result
        # relative to that result -- however small it is (an absolute tolerance would accept 0 for 3e-17)
        if val == 0:
            return "ok" if g[1] == 0 else f"WRONG-VALUE: {g[1]} expected 0"
        if p.get("exact"):
            # both operands written as integers, + - *: Python integer arithmetic, exact at any magnitude
            return "ok" if g[1] == val else f"WRONG-VALUE: {g[1]} expected exactly {val}"
        return "ok" if abs(g[1] - val) <= Fraction(1, 2 ** 50) * abs(val) else f"WRONG-VALUE: {float(g[1])!r} expected {float(val)!r}"

    return exp, None


def _exp_df(p):
    eq = A.acnf

    def exp(w, g, r):
        a = eq(g)
        if a[0] != "Multiply*":
            return "SHAPE: not a product"
        adds = [x for x in a[1] if x[0] == "Add*"]
        if len(adds) != 1 or len(adds[0][1]) != 2:
            return "SHAPE: no two-operand sum among the factors"
        rest = [x for x in a[1] if x[0] != "Add*"]
        for kk in adds[0][1]:
            if "Variable" in repr(kk):
                return "SHAPE: the sum still contains a variable"
        if "Variable" not in repr(rest):
            return "SHAPE: the common factor lost the variable"
        return "ok" if value_equal(w, g, r) else "WRONG-VALUE: factored form is not equal to the sum"

    return exp, None


def _exp_dfc(p):
    eq = A.acnf

    def exp(w, g, r):
        a = eq(g)
        if a[0] != "Multiply*" or not any(x[0] == "Add*" for x in a[1]):
            return "SHAPE: not a product with a sum"
        return "ok" if value_equal(w, g, r) else "WRONG-VALUE"

    return exp, None


def _exp_dm(p):
    eq = A.acnf

    def exp(w, g, r):
        if w[3][0] == "Add" and w[2][0] != "Add":
            a_, b_, c_ = w[2], w[3][2], w[3][3]
        else:
            a_, b_, c_ = w[3], w[2][2], w[2][3]
        want = ("Add", None, ("Multiply", None, a_, b_), ("Multiply", None, a_, c_))
        return "ok" if eq(want) == eq(g) else "WRONG: not ab + ac"

    return exp, None


def _exp_mi(p):
    def exp(w, g, r):
        if p.get("neg"):
            return "ok" if g == ("Multiply", None, w[2], ("Divide", None, A.C(-1), w[3][3])) else "WRONG: not a * (-1 / b)"
        return "ok" if g == ("Multiply", None, w[2], ("Divide", None, A.C(1), w[3])) else "WRONG: not a * (1 / b)"

    return exp, None


def _exp_rs(p):
    def exp(w, g, r):
        if p.get("back"):
            if g[0] != "Subtract" or g[2] != w[2]:
                return "WRONG-SHAPE: not a - b"
            return "ok" if value_equal(("Negate", None, None, w[3]), g[3], r) else "WRONG-VALUE: subtrahend is not -(right operand)"
        if g[0] != "Add" or g[2] != w[2]:
            return "WRONG-SHAPE: not a + (-b)"
        neg_b = ("Negate", None, None, w[3])
        if not value_equal(neg_b, g[3], r):
            return "WRONG-VALUE: second operand is not -b"
        if g[3] == neg_b or g[3] == (w[3][3] if w[3][0] == "Negate" else None):
            return "ok"
        return "ok" if len(A.leaves(g[3])) == len(A.leaves(w[3])) else "WRONG-SHAPE: operand restructured"

    return exp, None


def _exp_vm(p):
    x, e1, e2 = p["x"], p["e1"], p["e2"]
    eq = A.acnf

    def exp(w, g, r):
        a = eq(g)
        items = a[1] if a[0] == "Multiply*" else (a,)
        pows = [i for i in items if i[0] == "Power"]
        if len(pows) != 1 or pows[0][1] != ("Variable", x) or pows[0][2][0] != "Add*":
            return "WRONG-SHAPE: not coefficient * x^(a + b)"
        ea = Fraction(e1[1:]) if e1 else Fraction(1)
        eb = Fraction(e2[1:]) if e2 else Fraction(1)
        if sorted(pows[0][2][1], key=repr) != sorted([("Constant", ea), ("Constant", eb)], key=repr):
            return "WRONG-EXPONENTS: exponent sum does not consist of the two exponents"
        if any("Variable" in repr(i) for i in items if i[0] != "Power"):
            return "WRONG-SHAPE: variable outside the power"
        return "ok" if value_equal(w, g, r) else "WRONG-VALUE"

    return exp, None


def _exp_bm_add(p):
    t, side, pos = p["t"], p["side"], p["pos"]
    eq = A.acnf

    def target(o):
        s_ = o.left if side == "L" else o.right
        want = vs(t)
        n = s_
        if S.kind(n) != "Add":
            return None
        if pos == "last":
            return n.right if A.v(S.shadow(n.right)) == want else None
        while S.kind(n.left) == "Add":
            n = n.left
        return n.left if A.v(S.shadow(n.left)) == want else None

    def exp(w, g, r):
        if g[0] != "Equal":
            return "WRONG: not an equation"
        tv = vs(t)
        moved_to = g[3] if side == "L" else g[2]
        stay = g[2] if side == "L" else g[3]
        other_before = w[3] if side == "L" else w[2]
        if moved_to != ("Subtract", None, other_before, tv):
            return "WRONG-SHAPE: other side is not (side - t)"
        src_before = w[2] if side == "L" else w[3]
        return "ok" if eq(src_before) == eq(("Add", None, stay, tv)) else "WRONG-SHAPE: remaining side is not the side without t"

    return exp, target


def _exp_bm_mul(p):
    c_, flip = p["c"], p["flip"]

    def target(o):
        s_ = o.right if flip else o.left
        return s_.left if S.kind(s_) == "Multiply" and S.kind(s_.left) == "Constant" else None

    def exp(w, g, r):
        cv = A.C(Fraction(c_))
        want = ("Equal", None, ("Divide", None, w[2], cv), ("Divide", None, w[3], cv))
        return "ok" if g == want else "WRONG-SHAPE: not both sides divided by the coefficient"

    return exp, target


EXPECT = {"cs": _exp_cs, "ag": _exp_ag, "ca": _exp_ca, "df": _exp_df, "dfc": _exp_dfc, "dm": _exp_dm, "mi": _exp_mi, "rs": _exp_rs, "vm": _exp_vm,
          "bm_add": _exp_bm_add, "bm_mul": _exp_bm_mul}
TARGET_ONLY = {
    "ag_neg": lambda p: (lambda o: o.left),
    "bm_neg": lambda p: (lambda o: o.left.right.right if S.kind(o.left) == "Multiply" and S.kind(o.left.right) == "Add" else None),
}


def instances(rng):
    # ---- commutative
    for op, K in (("+", "Add"), ("*", "Multiply")):
        a, b = operand(rng), operand(rng)
        yield Inst("CS" + op, "CS", f"{a} {op} {b}", "cs", {"K": K})
        yield Inst("CS" + op, "CS:np", f"({a} + 1) {op} {b}", "cs", {"K": K})
    a, b = operand(rng), operand(rng)
    yield Inst("CS-neg", "CS", f"({a}) {rng.choice(['-', '/', '^'])} ({b})", "neg", applicable=False)
    yield Inst("CS:np-neg", "CS:np", rng.choice(POSC) + rng.choice(VARS) + rng.choice(["", "^2", "^3", "^7"]), "neg", applicable=False,
               contexts=["{}", "{} + q", "q + {}", "q - {}", "sgn({})"])
    # ---- associative
    for op, K in (("+", "Add"), ("*", "Multiply")):
        a, b, c = operand(rng), operand(rng), operand(rng)
        if op == "*":
            a, b, c = (f"({x})" if " " in x else x for x in (a, b, c))
        yield Inst("AG" + op, "AG", f"({a} {op} {b}) {op} {c}", "ag", {"K": K, "side": "L"})
        yield Inst("AG" + op, "AG", f"{a} {op} ({b} {op} {c})", "ag", {"K": K, "side": "R"})
    a, b, c = operand(rng), operand(rng), operand(rng)
    yield Inst("AG-neg", "AG", f"({a} - {b}) - {c}", "ag_neg", applicable=False)
    yield Inst("AG-neg", "AG", f"({a} + {b}) * {c}", "ag_neg", applicable=False)
    # ---- constant arithmetic
    consts = ["2", "3", "4", "6", "7", "12", "2.5", "1.5", "0.5", "-3", "-4", "0", "5", "10", "0.1", "0.2", "100", "1"]
    for op in "+-*/":
        c1, c2 = rng.choice(consts), rng.choice(consts)
        if op == "/" and Fraction(c2) == 0:
            c2 = "4"
        yield Inst("CA" + op, "CA", f"{c1} {op} {c2}", "ca", {"op": op, "exact": op != "/" and "." not in c1 + c2})
    # products of integer literals beyond 2^53 / 2^63 / 2^64 are exact whatever their size (operands stay below 10^13:
    # listing the moves of every rule on such a tree runs the factoring helper, which enumerates divisors up
    # to sqrt(n), over each constant addend -- sums and differences of integers beyond 2^53 are out of reach here)
    wide = ["94906267", "4294967297", "3037000500", "1000000007", "999999999989", "1234567890123", "3", "7", "2147483647"]
    c1, c2 = rng.choice(wide[:6]), rng.choice(wide)
    if rng.random() < 0.5:
        c1, c2 = c2, c1
    yield Inst("CA*", "CA", f"{c1} * {c2}", "ca", {"op": "*", "exact": True}, contexts=["{}", "{} + q", "q * ({})"])
    tiny = ["0.00000000000000001", "0.00000000000000002", "0.00000000000000004", "0.30000000000000004", "0.3", "0.0000001", "0.1", "0.2", "0.7", "1000000.5", "0.000000000000000000003"]
    for op in "+-":
        yield Inst("CA" + op, "CA", f"{rng.choice(tiny)} {op} {rng.choice(tiny)}", "ca", {"op": op}, contexts=["{}", "{} + q", "q * ({})", "({}) - q"])
    # ---- factor out
    v_ = rng.choice(VARS)
    e_ = rng.choice(EXPS)
    c1, c2 = rng.choice(COEFS), rng.choice(COEFS)
    yield Inst("DF", "DF", f"{c1}{v_}{e_} + {c2}{v_}{e_}", "df")
    yield Inst("DF", "DF:c", f"{c1}{v_}{e_} + {c2}{v_}{e_}", "df")
    # a term whose coefficient -1 is written as a negation ('-x^3' is a negation node over the power)
    en = rng.choice(["^2", "^3", "^4", "", "^2.5"])
    yield Inst("DF", rng.choice(["DF", "DF:c"]), rng.choice([f"{c1}{v_}{en} + -{v_}{en}", f"-{v_}{en} + {c1}{v_}{en}", f"-{v_}{en} + -{v_}{en}"]), "df")
    p1, p2 = rng.sample(["2", "3", "5", "7", "11", ""], 2)
    neg = rng.choice([f"{p1}x + {p2}y", "x^2 + x^3", f"{p1}x + {p2}x^2", "x + 4", "4 + 6", "12 + 18", "x^2 + y^2", "3 + x", f"{p1}x^2 + {p2}y^2",
                      f"{p1}a + {p2}", "x + y"])
    yield Inst("DF-neg", "DF", neg, "neg", applicable=False)
    k1, k2 = rng.choice([(4, 6), (12, 18), (10, 5), (6, 9), (8, 12), (3, 3), (14, 21)])
    yield Inst("DF:c", "DF:c", f"{k1} + {k2}", "dfc")
    # ---- distribute
    a, b, c = operand(rng), operand(rng), operand(rng)
    if " " in a and not a.startswith("sgn"):
        a = rng.choice(VARS)
    yield Inst("DM", "DM", f"{a} * ({b} + {c})", "dm")
    yield Inst("DM", "DM", f"({b} + {c}) * {a}", "dm")
    # ---- multiplicative inverse
    a, b = operand(rng), operand(rng)
    if b in ("0",):
        b = "y"
    yield Inst("MI", "MI", f"{a} / {b}", "mi")
    bb = rng.choice([rng.choice(VARS), f"({term(rng)} + {rng.choice(POSC)})", f"({rng.choice(VARS)} * {rng.choice(VARS)})"])
    yield Inst("MI-neg-denominator", "MI", f"{a} / -{bb}", "mi", {"neg": True})
    # ---- restate subtraction
    a = operand(rng)
    b = rng.choice([term(rng), rng.choice(VARS), rng.choice(POSC), f"({term(rng)} + 1)", f"{rng.choice(VARS)}^2", "-" + rng.choice(VARS), "-" + rng.choice(POSC),
                    f"-{rng.choice(POSC)}{rng.choice(VARS)}", f"{rng.choice(VARS)} * {rng.choice(VARS)}", f"sgn({rng.choice(VARS)})", f"{rng.choice(POSC)}^2", f"{rng.choice(['3', '5'])}!"])
    yield Inst("RS-sub", "RS", f"{a} - {b}", "rs")
    nb = rng.choice([f"-{rng.choice(POSC)}", f"-{rng.choice(POSC)}{rng.choice(VARS)}", f"-{rng.choice(POSC)}{rng.choice(VARS)}^{rng.choice(['2', '3', '0.5', '-1'])}"])
    yield Inst("RS-back", "RS", f"{a} + {nb}", "rs", {"back": True})
    # ---- variable multiply
    x = rng.choice(VARS)
    c1, c2 = rng.choice(["", "2", "-3", "0.5", "4", "7"]), rng.choice(["", "2", "-3", "0.5", "4", "10"])
    e1, e2 = rng.choice(["", "^2", "^0", "^-1", "^0.5", "^3", "^7"]), rng.choice(["", "^2", "^0", "^-1", "^0.5", "^3", "^4"])
    yield Inst("VM", "VM", f"{c1}{x}{e1} * {c2}{x}{e2}", "vm", {"x": x, "e1": e1, "e2": e2})
    y = rng.choice([v for v in VARS if v != x])
    yield Inst("VM-neg", "VM", f"{c1}{x}{e1} * {c2}{y}{e2}", "neg", applicable=False)
    # ---- balanced move (whole equation; no embedding contexts)
    L = " + ".join(term(rng) for _ in range(rng.randint(1, 3)))
    R = " + ".join(rng.choice([term(rng), rng.choice(POSC)]) for _ in range(rng.randint(1, 2)))
    t = rng.choice([term(rng), rng.choice(POSC), rng.choice(VARS)])
    side = rng.choice(["L", "R"])
    pos = rng.choice(["first", "last"])

    def mk(side_text):
        return f"{t} + {side_text}" if pos == "first" else f"{side_text} + {t}"

    text = f"{mk(L)} = {R}" if side == "L" else f"{L} = {mk(R)}"
    yield Inst("BM-add", "BM", text, "bm_add", {"t": t, "side": side, "pos": pos}, contexts=EQ_CONTEXTS)
    # the same piece cloned onto BOTH sides ("add t to both sides"): the two copies carry the same
    # node ids, and the move is requested for the one on `side`
    twin = rng.choice(["{o} + {t}", "{t} + {o}"])
    text = f"{mk(L)} = {twin.format(o=R, t=t)}" if side == "L" else f"{twin.format(o=L, t=t)} = {mk(R)}"
    yield Inst("BM-add", "BM", text, "bm_add", {"t": t, "side": side, "pos": pos, "twin": True}, contexts=EQ_CONTEXTS)
    c_ = rng.choice(["2", "3", "12", "0.5", "-4", "7", "2.5"])
    c2_ = rng.choice(["3", "5", "0.5", "7"])
    body = rng.choice([f"{c_}{rng.choice(VARS)}", f"{c_}{rng.choice(VARS)}^2", f"{c_} * {rng.choice(VARS)}",
                       # a second constant further down the same product (the coefficient to divide by is the outer one)
                       f"{c_} * {c2_}{rng.choice(VARS)}", f"{c_} * ({c2_} * {rng.choice(VARS)})", f"{c_} * {c2_}{rng.choice(VARS)}^2"])
    rside = rng.choice([rng.choice(POSC), term(rng), f"{term(rng)} + {rng.choice(POSC)}"])
    flip = rng.random() < 0.3
    text = f"{rside} = {body}" if flip else f"{body} = {rside}"
    yield Inst("BM-mul", "BM", text, "bm_mul", {"c": c_, "flip": flip}, contexts=EQ_CONTEXTS)
    yield Inst("BM-neg", "BM", f"{rng.choice(POSC)}({rng.choice(VARS)} + {rng.choice(POSC)}) = {rng.choice(POSC)}", "bm_neg", applicable=False, contexts=EQ_CONTEXTS)


def big_instances(rng):
    """large-magnitude coefficients (the factoring helper enumerates divisors up to sqrt(n): a
    12-13 digit coefficient costs a few tenths of a second, so only a handful are driven)"""
    v = rng.choice(VARS)
    e = rng.choice(["", "^2", "^3"])
    big = rng.choice(["1000000000039", "2500000000000", "999999999989", "1234567890123", "7500000000000.5"])
    small = rng.choice(["3", "4", "2", "12"])
    pair = (big, small) if rng.random() < 0.5 else (small, big)
    yield Inst("DF", "DF", f"{pair[0]}{v}{e} + {pair[1]}{v}{e}", "df", contexts=["{}", "q + ({})", "({}) * q"])
    yield Inst("CA*", "CA", f"{big.split('.')[0]} * {rng.choice(['1000003', '99999999977'])}", "ca", {"op": "*", "exact": True}, contexts=["{}", "{} + q"])
    yield Inst("CS+", "CS", f"{big}{v} + {small}", "cs", {"K": "Add"}, contexts=["{}", "({}) * q"])
    yield Inst("VM", "VM", f"{big.split('.')[0]}{v}^2 * {small}{v}^3", "vm", {"x": v, "e1": "^2", "e2": "^3"}, contexts=["{}", "q + ({})"])


def run(rec, cfg):
    rec.accept = {"schema"}
    rng = cfg.rng("c08")
    for _ in range(cfg.scale(2, 12)):
        for inst in big_instances(rng):
            run_instance(rec, inst, rng, inst.contexts)
            rec.arm("schema:big-coefficient-instances")
    n = cfg.scale(260, 30000)
    for i in range(n):
        if cfg.out_of_time():
            rec.truncated = True
            break
        for inst in instances(rng):
            ctxs = inst.contexts if len(inst.contexts) <= 5 else rng.sample(inst.contexts, 3)
            run_instance(rec, inst, rng, ctxs)
            if rng.random() < 0.002:
                rec.sample({"schema": inst.schema, "rule": inst.rule, "instance": inst.text, "contexts": ctxs})


def replay(rec, cfg, w):
    rec.accept = {"schema"}
    inst = rebuild(w)
    FORCE["via"] = bool(w.get("reached_in_place"))
    FORCE["hostile"] = bool(w.get("numpy_invalid_raise"))
    FORCE["fold"] = bool(w.get("reached_by_folding"))
    FORCE["rename"] = bool(w.get("renamed"))
    FORCE["mult"] = bool(w.get("reached_by_multiplying"))
    for i in range(12 if (FORCE["via"] or FORCE["fold"] or FORCE["mult"]) else 1):   # the in-place detour picks its swap node at random
        run_instance(rec, inst, cfg.rng(f"replay{i}"), [w["context"]] if FORCE["via"] and w.get("context") else inst.contexts)
