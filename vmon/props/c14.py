"""C14 -- traversals and look-ups visit exactly the right nodes in the right order."""
from .. import core
from ..monitors import tree as MT
from ..oracles import shadow as S
from ..workloads import shapes as W9

MANIFEST = dict(
    technique='runtime contracts on visit_*/get_*/to_list/find_* vs reference recursion over left/right; exhaustive shape workload',
    text="Every call of the three traversals and of the look-up methods made by the workload is decided by a monitor that recomputes the defining order from the link structure; the workload drives every tree shape up to the bound, every STOP position and every start node, and mutation histories (queries interleaved with rotate / subtree moves between trees / wrapping / swapping / detaching through the public API, so that anything a node cached is stale), so the claim is 'held on all shapes <= N nodes and on the random larger ones observed', not a proof for all sizes.",
    note="Trusts CPython and our reference recursion; node classes are the repository's own.",
    ref='DESIGN.md 3/C14',
)

RULE = (
    "W9: every binary tree shape (0/left-only/right-only/2 children per node) up to N nodes (quick 9, thorough 12) built "
    "from BinaryTreeNode and from MathExpression classes with repeated ids, x 3 orders x every STOP position x start at "
    "every node with a non-zero depth argument; plus random shapes to 200 nodes, chains and zig-zags to depth 300. "
    "Monitors on visit_*/get_*/is_leaf/to_list/find_type/find_id compare each call with a reference recursion over "
    "left/right.  distinct non-trivial = (shape, order, stop position) with >= 2 nodes."
)
ASSUMPTIONS = [
    "reference orders are computed by our own recursion over the left/right attributes",
    "get_root_side is checked for non-root nodes only",
]
EXHAUSTIVE = True
SHARDS = {"quick": 8, "thorough": 16}
DEADLINE = {"quick": 60, "thorough": 600}
REQUIRED = {
    "visit:pre": 100, "visit:in": 100, "visit:post": 100, "visit:pre:stopped": 50, "visit:in:stopped": 50,
    "visit:post:stopped": 50, "visit:nested": 500, "query:get_root:deep-chain": 5, "visit:non-stop-return-values": 100, "query:find_id:hit": 20, "query:find_id:miss": 5, "query:get_sibling": 50,
    "query:get_root_side": 50, "query:find_type": 20, "shape:one-child": 10, "mutation-histories": 50, "mutation:move": 50, "mutation:wrap": 50, "mutation:replaced-node-queried": 50, "mutation:same-child-set-again": 50, "mutation:walk-aborted-by-an-exception": 50,
}


def factories():
    from mathy_core.tree import BinaryTreeNode
    from mathy_core import expressions as E

    def raw(l, r, i):
        return BinaryTreeNode(l, r, None, f"i{i % 3}")

    def expr(l, r, i):
        # classes chosen by index so find_type has something to select; ids repeat
        if l is None and r is None:
            n = E.ConstantExpression(i) if i % 2 else E.VariableExpression("xyz"[i % 3])
        elif l is not None and r is not None:
            n = (E.AddExpression, E.MultiplyExpression, E.SubtractExpression)[i % 3](l, r)
        else:
            n = E.MathExpression(None, l, r)
        n.id = f"i{i % 3}"
        return n

    class Sized(BinaryTreeNode):
        """what a user of the node class writes: the public setters overridden (calling super()) to keep a
        per-node value up to date"""

        def __init__(self, left=None, right=None, id=None):
            self.relinked = 0
            super().__init__(left, right, None, id)

        def set_left(self, child=None, clear_old_child_parent=False):
            self.relinked += 1
            return super().set_left(child, clear_old_child_parent)

        def set_right(self, child=None, clear_old_child_parent=False):
            self.relinked += 1
            return super().set_right(child, clear_old_child_parent)

    def user(l, r, i):
        return Sized(l, r, f"i{i % 3}") if i % 4 else BinaryTreeNode(l, r, None, f"i{i % 3}")

    return {"raw": raw, "expr": expr, "user-subclass": user}


class _StopStr(str):
    pass


def nested_walks(rec, root, kindname, rng):
    """a visitor may itself walk the tree (numbering nodes with root.to_list().index(node), looking
    something up from the root, ...): a traversal started from inside a callback of another one
    must still reach every node exactly once in its own order, and the outer one must go on
    unharmed (the contract on the outer call decides that part)."""
    nodes = S.nodes_preorder(root)
    shp = W9.shape_str(W9.shape_of(root))
    orders = {"preorder": "pre", "inorder": "in", "postorder": "post"}
    for outer in orders:
        for inner in orders:
            at = rng.randrange(len(nodes))
            where = rng.choice(["root", "node", "parent"])
            got = []
            count = [0]

            def fn(node, depth, data):
                count[0] += 1
                if count[0] - 1 != at:
                    return None
                start = root if where == "root" else node if where == "node" else (node.parent or node)
                seq = []
                getattr(start, f"visit_{inner}")(lambda n2, d2, dat2: seq.append((n2, d2)), 0, None)
                want = MT.ref_order(start, orders[inner], 0, [])
                got.append((seq, want, start))
                if kindname == "expr" and where == "root":
                    lst = root.to_list(inner)
                    got.append(([(x, None) for x in lst], [(x, None) for x, _ in MT.ref_order(root, orders[inner], 0, [])], root))
                return None

            getattr(root, f"visit_{outer}")(fn, 0, None)
            for seq, want, start in got:
                rec.ev()
                rec.arm("visit:nested")
                if len(seq) != len(want) or any(a[0] is not b[0] or a[1] != b[1] for a, b in zip(seq, want)):
                    rec.violation("C14", f"visit_{inner}", f"{inner} traversal does not follow the defining order / STOP contract",
                                  {"shape": shp, "nested": True, "summary": f"shape {shp[:80]}: a {inner} walk started inside a callback of a {outer} walk "
                                   f"(at callback {at}, from the {where}) made {len(seq)} callbacks, {len(want)} nodes are reachable"})
                elif len(want) >= 2:
                    rec.nontrivial((shp, "nested", outer, inner, at, where, kindname))


def drive_tree(rec, root, kindname, rng, full_stops=True):
    from mathy_core.tree import STOP
    from mathy_core import expressions as E

    nodes = S.nodes_preorder(root)
    n = len(nodes)
    shp = W9.shape_str(W9.shape_of(root))
    try:
        nested_walks(rec, root, kindname, rng)
    except RecursionError:
        pass
    if any((x.left is None) != (x.right is None) for x in nodes):
        rec.arm("shape:one-child")
    for order in ("preorder", "inorder", "postorder"):
        starts = [(root, 0)]
        if n > 1:
            starts.append((nodes[rng.randrange(1, n)], rng.randrange(1, 5)))
        for start, d0 in starts:
            sub = len(S.nodes_preorder(start))
            visit = getattr(start, f"visit_{order}")
            visit(lambda node, depth, data: None, d0, None)
            # visitors return all sorts of things when they do not want to stop (the value of an
            # expression, a node, a flag): only the stop signal stops the walk
            for other in (True, 1, "continue", 0, "", 2.5, [1], start):
                visit(lambda node, depth, data, other=other: other, d0, None)
            visit(lambda node, depth, data: node, d0, None)
            rec.arm("visit:non-stop-return-values")
            stops = range(sub) if full_stops else sorted({0, sub - 1, rng.randrange(sub)})
            for j in stops:
                c = [0]

                # the stop signal is the VALUE "stop": every third visitor returns an equal string that
                # is a different object (built at run time / a str subclass), as a visitor that gets
                # its verdict from data would
                stopv = STOP if j % 3 == 0 else ("".join(["st", "op"]) if j % 3 == 1 else _StopStr("stop"))

                def fn(node, depth, data, j=j, c=c, stopv=stopv):
                    c[0] += 1
                    return stopv if c[0] - 1 == j else None

                visit(fn, d0, "payload")
                if sub >= 2:
                    rec.nontrivial((shp, order, j, kindname, d0))
    for x in nodes:
        x.get_root()
        if x.parent is not None:
            x.get_root_side()
        x.get_sibling()
        x.get_children()
        x.is_leaf()
        for c in (x.left, x.right):
            if c is not None:
                x.get_side(c)
        try:
            x.get_side(root if root is not x.left and root is not x.right else x)
        except (ValueError, RecursionError):
            pass
    if kindname == "expr":
        for order in ("preorder", "inorder", "postorder"):
            root.to_list(order)
        for t in (E.ConstantExpression, E.BinaryExpression, E.MathExpression, E.AddExpression):
            root.find_type(t)
        for i in ("i0", "i1", "i2", "nope"):
            root.find_id(i)
        if rng.random() < 0.3:
            # an id is whatever the caller assigns (the constructor only generates one for None): empty, zero
            # and other falsy or unusual values are ids like any other
            odd = ["", 0, 0.0, False, (), -1, 1, "0", b"", 10 ** 30, "mn-1", " "]
            chosen = rng.sample(nodes, min(len(nodes), 3))
            was = [x.id for x in chosen]
            for x in chosen:
                x.id = rng.choice(odd)
            core.REC.arm("query:find_id:unusual-ids")
            for i in [x.id for x in chosen] + rng.sample(odd, 3):
                root.find_id(i)
            for x, w_ in zip(chosen, was):
                x.id = w_
        if n > 1:
            sub = nodes[rng.randrange(1, n)]
            sub.to_list("inorder")
            sub.find_type(E.VariableExpression)
            sub.find_id("i1")


def query_all(root, rng, expr):
    """every look-up on every node of the tree (the monitors decide each call)"""
    from mathy_core import expressions as E

    nodes = S.nodes_preorder(root)
    for x in nodes:
        x.get_root()
        if x.parent is not None:
            x.get_root_side()
        x.get_sibling()
        x.get_children()
        x.is_leaf()
        for c in (x.left, x.right):
            if c is not None:
                x.get_side(c)
    start = rng.choice(nodes)
    for order in ("preorder", "inorder", "postorder"):
        getattr(start, f"visit_{order}")(lambda n, d, data: None, rng.randrange(3), None)
    # lists handed out belong to the caller: emptied / scribbled on, then the question is asked again
    kids = start.get_children()
    kids.clear()
    kids.append(None)
    start.get_children()
    if expr:
        order = rng.choice(["preorder", "inorder", "postorder"])
        lst = root.to_list(order)
        lst.reverse()
        del lst[: len(lst) // 2]
        root.to_list(order)
        found = root.find_type(E.MathExpression)
        found.clear()
        root.to_list(rng.choice(["preorder", "inorder", "postorder"]))
        root.find_type(rng.choice([E.MathExpression, E.ConstantExpression, E.BinaryExpression]))
        root.find_id(rng.choice(["i0", "i1", "nope"]))


def mutation_history(rec, rng, fac, kn, steps=12):
    """Look-ups must agree with the link structure *as it is now*: interleave queries with
    structural mutations through the public API (rotate, re-parenting a subtree into another
    tree, wrapping a root in a new parent, swapping children, unlinking), so that anything a
    node remembered from an earlier call is stale."""
    trees = [W9.build(W9.random_shape(rng, rng.randint(2, 9), 0.3), fac) for _ in range(2)]
    for t in trees:
        query_all(t, rng, kn == "expr")
    for _ in range(steps):
        op = rng.choice(["rotate", "rotate", "rotate", "move", "wrap", "swap", "swap", "detach", "replace", "replace", "layout", "reattach", "aborted-walk"])
        a = rng.choice(trees)
        try:
            nodes = S.nodes_preorder(a)
        except RecursionError:
            break
        n = rng.choice(nodes)
        try:
            if op == "rotate":
                n.rotate()
            elif op == "move":
                b = trees[1] if a is trees[0] else trees[0]
                target = rng.choice(S.nodes_preorder(S.root_of(b)))
                if n.parent is not None:
                    side = "left" if n.parent.left is n else "right"
                    n.parent.set_side(None, side) if False else (n.parent.set_left(None) if side == "left" else n.parent.set_right(None))
                    n.parent = None
                    if target is not n and n not in S.nodes_preorder(S.root_of(target)):
                        (target.set_left if rng.random() < 0.5 else target.set_right)(n)
            elif op == "wrap":
                r = S.root_of(n)
                new = fac(r, None, 99) if rng.random() < 0.5 else fac(None, r, 99)
            elif op == "swap":
                l, r = n.left, n.right
                n.set_left(r)
                n.set_right(l)
            elif op == "reattach":
                # "replace the child and detach the old one" where the replacement IS the old child
                # (a transform that returned its input): the tree must be exactly as before
                par = n.parent
                if par is not None:
                    if par.left is n:
                        par.set_left(n, clear_old_child_parent=True)
                    else:
                        par.set_right(n, clear_old_child_parent=True)
                    rec.arm("mutation:same-child-set-again")
                    rec.ev()
                    if n.parent is not par:
                        rec.violation("C14", "query_get_root", "get_root disagrees with the link structure",
                                      {"shape": W9.shape_str(W9.shape_of(S.root_of(par))), "node_path": "?", "summary": "set_left/set_right(child, clear_old_child_parent=True) with the child "
                                       f"that is already there: the child is still attached but its parent is {n.parent!r}; get_root() from it gives its own subtree"})
                        n.parent = par
            elif op == "aborted-walk":
                # a visitor raises half-way; the caller handles it; the next walk is complete again
                order = rng.choice(["preorder", "inorder", "postorder"])
                count = [0]
                stop_at = rng.randrange(1, 6)

                class _Boom(Exception):
                    pass

                def boom(node, depth, data):
                    count[0] += 1
                    if count[0] >= stop_at:
                        raise _Boom()

                try:
                    getattr(S.root_of(n), f"visit_{order}")(boom, 0, None)
                except _Boom:
                    rec.arm("mutation:walk-aborted-by-an-exception")
            elif op == "layout":
                # the tree is drawn at some point (the layout leaves x / y / offset attributes on the
                # nodes it saw); nodes grafted in afterwards have none of them
                from mathy_core.layout import TreeLayout

                TreeLayout().layout(S.root_of(n))
                if rng.random() < 0.7:
                    fresh = fac(fac(None, None, 55), fac(None, None, 56), 57)
                    if n.left is None:
                        n.set_left(fresh)
                    elif n.right is None:
                        n.set_right(fresh)
                    else:
                        old_child = n.left
                        n.set_left(fresh)
                        fresh.left.set_left(old_child)
            elif op == "replace" and n.parent is not None:
                # the ordinary way to replace a child: set_left/set_right with the default
                # clear_old_child_parent=False leaves the OLD child with a parent pointer to a node
                # that no longer holds it; the replaced node is then asked for its sibling
                par = n.parent
                new = fac(None, None, 77)
                if par.left is n:
                    par.set_left(new)
                else:
                    par.set_right(new)
                rec.arm("mutation:replaced-node-queried")
                n.get_sibling()
                new.get_sibling()
                n.get_children()
                n.is_leaf()
            elif op == "detach" and n.parent is not None:
                if n.parent.left is n:
                    n.parent.set_left(None, clear_old_child_parent=True)
                else:
                    n.parent.set_right(None, clear_old_child_parent=True)
        except Exception:
            pass
        rec.arm("mutation:" + op)
        try:
            roots = []
            for t in trees:
                for x in S.nodes_preorder(t):
                    r = S.root_of(x)
                    if not any(r is y for y in roots):
                        roots.append(r)
            trees = roots[:4] if roots else trees
            for t in trees:
                if not S.audit(t, expr=False):
                    query_all(t, rng, kn == "expr")
        except RecursionError:
            break  # links corrupted by an earlier step (cyclic): already reported by a monitor
    rec.arm("mutation-histories")
    rec.nontrivial(("mutation-history", kn, steps, rng.random()))


def _iter_order(root, order):
    """reference traversal with an explicit stack (for trees deeper than any recursion limit)"""
    out, stack = [], [(root, 0)]
    while stack:
        n, state = stack.pop()
        if n is None:
            continue
        if state == 1:
            out.append(n)
            continue
        if order == "preorder":
            stack += [(n.right, 0), (n.left, 0), (n, 1)]
        elif order == "inorder":
            stack += [(n.right, 0), (n, 1), (n.left, 0)]
        else:
            stack += [(n, 1), (n.right, 0), (n.left, 0)]
    return out


def deep_walk_answers(rec):
    """expression trees deeper than the interpreter's DEFAULT recursion limit (right-deep, left-deep, zig-zag,
    one-child chains): the listing helpers walk recursively, so running out of stack is understood (the pinned
    code raises RecursionError: not decided); but a list, when one is returned, is the traversal."""
    import sys
    from mathy_core import expressions as E
    from .. import contracts as _contracts

    to_list = getattr(E.MathExpression.to_list, "__vmon_original__", E.MathExpression.to_list)
    find_type = getattr(E.MathExpression.find_type, "__vmon_original__", E.MathExpression.find_type)

    def build(kind, depth):
        cur = E.VariableExpression("x")
        for i in range(depth):
            leaf = E.ConstantExpression(i)
            if kind == "right":
                cur = E.AddExpression(leaf, cur)
            elif kind == "left":
                cur = E.AddExpression(cur, leaf)
            elif kind == "zigzag":
                cur = E.AddExpression(leaf, cur) if i % 2 else E.MultiplyExpression(cur, leaf)
            else:
                cur = E.NegateExpression(cur)
        return cur

    old = sys.getrecursionlimit()
    for kind in ("right", "left", "zigzag", "chain"):
        for depth in (1100, 3000):
            root = build(kind, depth)
            for what in ("preorder", "inorder", "postorder", "find_type"):
                sys.setrecursionlimit(1000)
                _contracts.SUSPENDED[0] += 1        # the monitors walk recursively themselves
                try:
                    got = to_list(root, what) if what != "find_type" else find_type(root, E.MathExpression)
                    err = None
                except RecursionError:
                    got, err = None, "RecursionError"
                except Exception as e:
                    got, err = None, type(e).__name__
                finally:
                    _contracts.SUSPENDED[0] -= 1
                    sys.setrecursionlimit(old)
                rec.ev()
                rec.arm("query:deep-walk-under-default-limit")
                if err == "RecursionError":
                    continue
                want = _iter_order(root, "inorder" if what == "find_type" else what)
                if err is not None or len(got) != len(want) or any(a is not b for a, b in zip(got, want)):
                    rec.violation("C14", "query_to_list" if what != "find_type" else "query_find_type", "a listing helper disagrees with the traversal",
                                  {"deep_walk": True, "summary": f"a {kind} expression tree {depth} levels deep ({len(want)} nodes), default recursion limit: "
                                   + (f"{what} raised {err}" if err else f"{what} returned {len(got)} entries ({len(set(map(id, got)))} distinct nodes), the traversal has {len(want)}")})
                else:
                    rec.arm("query:deep-walk-answered")


def run(rec, cfg):
    MT.attach_visits("C14")
    MT.attach_queries("C14")
    fac = factories()
    nmax = cfg.scale(9, 12)
    rng = cfg.rng("c14")
    from ..workloads import interrupted as _INT

    if cfg.shard == 6 % cfg.nshards:
        _INT.walk_cases(rec, "C14")
    if cfg.shard == 5 % cfg.nshards:
        deep_walk_answers(rec)
    idx = 0
    for s in W9.all_shapes_upto(nmax):
        idx += 1
        if not cfg.mine(idx):
            continue
        if cfg.out_of_time():
            rec.truncated = True
            break
        for kn, f in fac.items():
            from ..workloads import copies as _CP

            drive_tree(rec, _CP.routed(W9.build(s, f), "tree", every=9), kn, rng, full_stops=W9.count(s) <= 8 or kn == "expr")
        rec.arm("shapes:exhaustive")
        if idx % 97 == 0:
            rec.sample({"shape": W9.shape_str(s), "nodes": W9.count(s), "orders": 3, "stop_positions": "all"})
    rec.notes["exhaustive_bound_nodes"] = nmax
    # random larger shapes, chains, zig-zags
    big = []
    for i in range(cfg.scale(6, 40)):
        big.append(W9.random_shape(rng, rng.randrange(10, cfg.scale(60, 200)), rng.choice([0.1, 0.3, 0.6])))
    if cfg.shard == 0:
        big += [W9.chain(300, "L"), W9.chain(300, "R"), W9.zigzag(300)]
    # two-child spines 300-400 levels deep whose off-spine children are every shape of up to 3 nodes
    # (a right-only or left-only node far below the start of the walk, inside a RIGHT or LEFT subtree)
    hangs = list(W9.all_shapes_upto(3))
    for j, h in enumerate(hangs):
        for side in ("L", "R"):
            if cfg.mine(j * 2 + (side == "R")):
                big.append(W9.comb(rng.choice([260, 300, 380]), side, h))
    for s in big:
        if cfg.out_of_time():
            rec.truncated = True
            break
        for kn, f in fac.items():
            drive_tree(rec, W9.build(s, f), kn, rng, full_stops=False)
        rec.arm("shapes:random-large")
        rec.sample({"shape": W9.shape_str(s)[:120], "nodes": W9.count(s), "height": W9.height(s)})
    # very deep chains built iteratively through the constructors (no recursion needed to build or
    # to walk up): the root is the root however far away it is
    if cfg.shard == 1 % cfg.nshards:
        from mathy_core.tree import BinaryTreeNode as _B

        for depth in (1000, 4095, 4096, 4097, 5000, 20000, 70000):
            node = bottom = _B()
            for i in range(depth):
                node = _B(node, None) if i % 2 else _B(None, node)
            bottom.get_root()
            bottom.parent.get_root()
            rec.arm("query:get_root:deep-chain")
    # queries interleaved with structural mutations (stale per-node state)
    for i in range(cfg.scale(150, 3000)):
        if cfg.out_of_time():
            rec.truncated = True
            break
        kn = rng.choice(["raw", "expr"])
        mutation_history(rec, rng, fac[kn], kn, steps=rng.randint(4, 16))
    # expression trees from the parser
    from mathy_core.parser import ExpressionParser

    p = ExpressionParser()
    long_unary = "x + -y + " + " + ".join(["1"] * 170) + " + -z + sgn(w) + 3! + " + " + ".join(["2"] * 170)
    for t in ("4x^2 + 2y - 7 = -(3 + z)!", "sgn(-x) * (a + b)(c - d) / 2^k", "-(-(x))", "5!", "((a + b) + c) + d", long_unary):
        try:
            drive_tree(rec, p.parse(t), "expr", rng, full_stops=True)
            rec.arm("shapes:parsed")
        except Exception:
            pass


def replay(rec, cfg, w):
    if w.get("deep_walk"):
        deep_walk_answers(rec)
        return
    if "failpoint" in w:
        from ..workloads import interrupted as _INT

        _INT.walk_cases(rec, "C14")      # deterministic: the whole family of cases is run again
        return
    MT.attach_visits("C14")
    MT.attach_queries("C14")
    s = W9.parse_shape(w["shape"])
    for kn, f in factories().items():
        drive_tree(rec, W9.build(s, f), kn, cfg.rng("replay"), full_stops=True)
    if w.get("node_path") == "?":
        # the queried node was outside every tree (a replaced child with a stale parent pointer):
        # such nodes only arise in mutation histories
        rng = cfg.rng("replay-histories")
        fac = factories()
        for i in range(300):
            kn = rng.choice(["raw", "expr"])
            mutation_history(rec, rng, fac[kn], kn, steps=rng.randint(4, 16))
