"""C01 -- every applicable rewrite preserves the value of the expression."""
from .. import core
from ..monitors import rules as MR
from ..oracles import shadow as S
from ..workloads import drive as D
from . import _rulecommon as RC

MANIFEST = dict(
    technique="runtime contract on apply_to of the nine rule classes (entry shadow of the whole tree, exit comparison by an independent exact rational evaluator at >= 12 assignments); corpus/generator/template/episode workloads",
    text="Every rule application the workloads produce (all 11 rule/option instances, every match, also on already rewritten trees) is decided at exit of apply_to: the value of the whole expression before and after must agree exactly as rationals (float folds are made exact by working out the rational each new float constant stands for; a tolerance is only the fallback). Applications are driven both on clone_from_root copies and as in-place chains on one evolving tree object, with long-lived rule instances whose applicability answers are cross-checked against fresh instances. Every get_type arm of every rule is a required arm. Held on the applications observed.",
    note="Trusts fractions.Fraction, our evaluator/scale model and sampling at >= 12 rational assignments; non-integer exponents are compared approximately on positive bases; equation-rooted trees are compared side by side for rules other than balanced move (solution sets are C02).",
    ref="DESIGN.md 3/C01",
)
RULE = (
    "Start trees: W1 corpus + rule example files, W2 problem generators (both number modes), W3/W4 templates for every "
    "classification arm embedded in 26 contexts, random sums/products over few variables, equations; every rule instance "
    "applied (to clone_from_root) at up to 6 of its matches, then again on the rewritten trees (depth 3).  distinct "
    "non-trivial = (rule, option, arm, input tree, node) whose tree changed and whose values were compared on >= 3 "
    "common-domain assignments."
)
ASSUMPTIONS = [
    "values agree iff equal as rationals; 1e-9*scale tolerance only when the after-tree holds a float constant the before-tree lacks",
    "|integer exponent| <= 64, magnitudes bounded; other samples are counted as inconclusive",
    "constants above 1e10 end the chain (factor() enumerates divisors up to sqrt)",
]
SHARDS = {"quick": 8, "thorough": 16}
DEADLINE = {"quick": 55, "thorough": 480}


def REQUIRED(tier):
    req = RC.required_apply_arms(3)
    req.pop("apply:BM/TYPE_ADDITION", None)
    req.pop("apply:BM/TYPE_CONST_OF_MULTIPLY", None)
    req["value:compared:expression"] = 1000
    req["value:compared:side-of-equation"] = 50
    req["value:rewritten-tree-evaluated"] = 1000
    return req


def run(rec, cfg):
    rec.accept = {"value"}
    rec.alias = set(getattr(rec, "alias", set()) or set()) | {"C05"}
    MR.CHECKS.update({"value", "evaluate-after"})
    MR.attach_apply()
    rng = cfg.rng("c01")
    from ..workloads import interrupted as _INT

    if cfg.shard == 6 % cfg.nshards:
        _INT.balanced_move_cases(rec, "C01")
    rules = RC.with_flippers(MR.rule_instances())
    n = cfg.scale(260, 30000)
    if cfg.shard == 5 % cfg.nshards:
        RC.wide_ints(rec, rules)
    for src, text, hints in RC.start_texts(cfg, rng, n, equations=0.15):
        if cfg.out_of_time():
            rec.truncated = True
            break
        big = src == "big-text"
        root = RC.parse_start(text, allow_big=big)
        rules = RC.flip(rules, rng)
        use = RC.rules_for(src, rules)
        if root is None:
            continue
        rec.arm("start:" + src)
        if src in ("arm-text", "edge-text", "near-text") and D._small(root, 25):
            D.inplace_pairs(rec, root, use, rng)
        if rng.random() < 0.5:
            D.inplace_chain(rec, root, use, rng, steps=rng.randint(2, 6), big=big)
        frontier = [root]
        for depth in range(3):
            nxt = []
            for r in frontier:
                res = D.apply_everywhere(rec, r, use, rng, cap=6 if depth == 0 else 2)
                for label, idx, new_root in res:
                    if new_root is not None and not D.too_big(S.shadow(new_root), big):
                        nxt.append(new_root)
            if not nxt:
                break
            frontier = rng.sample(nxt, min(len(nxt), 3 if depth == 0 else 2))
        if rng.random() < 0.01:
            rec.sample({"source": src, "start": text[:120]})


def replay(rec, cfg, w):
    if "failpoint" in w:
        from ..workloads import interrupted as _INT

        _INT.balanced_move_cases(rec, "C01")      # deterministic: the whole family of cases is run again
        return
    rec.alias = set(getattr(rec, "alias", set()) or set()) | {"C05"}
    MR.CHECKS.update({"value", "evaluate-after"})
    MR.attach_apply()
    if "context" in w and "rule" not in w:
        # a witness of the evaluation monitor (the rewritten tree evaluated by the implementation)
        from . import c05

        rec.alias = rec.alias | {"C05"}
        c05.replay(rec, cfg, w)
        return
    D.replay_apply(w)
