"""Shared by the rule properties (C01, C02, C04, C06, C07, C09): the standard stream of
start trees and the list of required classification arms."""
import random

from ..monitors import rules as MR
from ..oracles import shadow as S
from ..workloads import drive as D
from ..workloads import exprs as WE
from ..workloads import text as WT

ARMS = {
    "AG": ["add-left-child", "add-right-child", "multiply-left-child", "multiply-right-child"],
    "CS": ["simple-add", "simple-multiply", "chain-add", "chain-multiply", "equation-flip"],
    "CS:np": ["simple-add", "simple-multiply", "chain-add", "chain-multiply", "equation-flip"],
    "CA": ["simple", "negation_simple", "simple_var_multiply", "chained_right", "chained_right_left", "chained_right_left_left",
           "chained_left_left_right", "chained_right_deep"],
    "DF": ["simple", "chained_both", "chained_left", "chained_left_right", "chained_right_left", "chained_right"],
    "DF:c": ["simple"],
    "DM": ["sum-on-left", "sum-on-right"],
    "MI": ["division-expression", "division-negative-denominator"],
    "RS": ["subtraction", "subtract-term-with-constant", "subtract-negative-constant", "subtract-negative-variable", "add_neg_const",
           "add_neg_const_var", "add_neg_const_var_exp"],
    "VM": ["simple", "chained", "chained_left_right"],
    "BM": ["TYPE_ADDITION", "TYPE_CONST_OF_MULTIPLY"],
}


# one guaranteed start text per classification arm (every shard drives all of them)
ARM_TEXTS = [
    "(a + b) + c", "a + (b + c)", "(a * b) * c", "a * (b * c)", "a + b", "a * b", "x = y", "2 + 3", "7 - 2", "4 * 2.5", "7 / 2", "2^3", "-(3 + 2)", "(4n * 2) + 3",
    "2 + (3 + x)", "2 * (3 * x)", "2 + ((3 + x) + y)", "2 * ((3 * x) * y)", "7q * 10y^3", "(7q * 10y^3) * x", "792z^4 * 490f * q^3",
    "(u^3 * 36c^6) * 7u^3", "4x + 2x", "4x^2 + 2x^2", "(a + 2x) + (3x + b)", "(4 + p) + p", "(a + (b + 2x)) + 3x", "2x + ((3x + a) + b)",
    "p + (p + 2x)", "4 + 6", "(a + b) * c", "a * (b + c)", "a / b", "a / -b", "(2 + 3z) / -z", "a - b", "4 - 3x", "4 - -3", "4 - -x", "4 + -3",
    "4 + -3x", "4 + -3x^2", "x * x^3", "2x^2 * 4x", "x * (x * y)", "(36c^6 * u^3) * 7u^3", "x + 2 = 3", "3x = 6", "3x + 7 = 2 + 4x", "2x = 6x - 8",
    "3 = 2 + x", "6 = 3x", "x + y + 2 = 3 + z", "-x = 4", "2 * 3x = 12",
]


# edge parameters (zero / one / negative coefficients and exponents, zero constants, identical
# operands) in every rule's simple and chained positions; every shard drives all of them
EDGE_TEXTS = [
    "0x + 2x", "5x + 0x", "0x^2 + 3x^2", "0 + 2x", "2x + 0", "0x + 0x", "0x + 2y", "4z + (0x + (2x + y))", "(4 + 0x) + 2x", "2x * 0 + 3x", "(3 - 3) * x + 2x",
    "1x + 1x", "-x + x", "x - x", "-1x + 1x", "x + x", "x^0 + x^0", "x^1 + x", "0.0x + 2x", "-0x + x", "0x * 3x", "0 * x", "x * 0", "x^0 * x^0", "x^1 * x", "x^-1 * x",
    "0x = 0", "0 = 0x", "2x = 0", "0 + x = 0", "x + 0 = 0 + y", "1x = 1", "-x = -1", "x / 1", "0 / x", "x / -1", "1 / -x", "0 - x", "x - 0", "x - -0", "0 - -x", "4 + -0",
    "4 + -0x", "0 + 0", "0 * 0", "0 - 0", "0^0", "1^0", "0^1", "2^0", "-(0 + 0)", "-(0 * 5)", "(0x * 2) + 3", "0 + (0 + x)", "0 * (0 * x)", "1 * (1 * x)", "(0q * 10y^3) * x",
    "x * (y + 0)", "0 * (x + y)", "(x + x) * (x + x)", "(x + y) + (x + y)", "(x * x) * (x * x)", "x * (x * x)", "2x^2 * 2x^2", "x = x", "x + 1 = x + 1", "2x + 1 = 2x + 1",
    "3x - (2x + 5)", "(7 + y) - (y + 2z)", "4z - ((z + 1) + y)", "3x - 2x", "(4 + x) - x", "x - (x - 1)", "x / (x * y)", "x^2 / x", "(x / y) / x", "6 / (3 / x)",
    "2x - (3 - 2x)", "y - (y + 20) = 100 - 120", "x * y / x", "(2 - x) - x", "-(x + x)", "-(2x) + 2x", "sgn(x) + sgn(x)", "2sgn(x) + 3sgn(x)", "x! " if False else "3! + 3!",
    # a common numeric factor below 1 with DIFFERENT variables (factor(0.5) = {1, 0.5}: the only way
    # unlike terms can be factored), and the same with a bare constant on one side
    "0.5x + 0.5y", "0.25a + 0.25b + 3", "(3 + 0.5x) + 0.5y", "0.5 + 0.5y", "0.5x + 0.5", "0.1x + 0.1y^2", "0.5x^2 + 0.5y^3", "0.5x + (0.5y + z)",
    # constant powers outside the real domain / at its edges (numpy answers nan or inf with a warning)
    "-8^0.5 + x", "-8^(1 / 3)", "7y + -3y + -8^0.5", "-2^0.5 * x", "-1^2.5", "0^-1 + x", "0^-0.5", "(2 - 10)^0.5", "-4^0.5 * -4^0.5",
    # a division by a negated chain / product (rewrites inside the negation, then the division itself)
    "x / -(a * b * c)", "y / -(a + b + c)", "y / -(x * (a + b))", "(x + 1) / -(2y * z * w)", "4 / -((a * b) * c)", "x / -(2a + 3a)", "1 / -(x * x)", "-(a + b + c) / -(a * b)",
    "sgn(a + b + c) + 1", "-(a * b * c) * x", "(a + b + c)!" if False else "-(2x + 3x + y)",
    # constant arithmetic between the coefficients of two multiplied terms, with NON-integer coefficients
    "4n * 2.5", "(7q * 2.5y^3) * x", "(u^3 * 3.5c^6) * 7u^3", "4n * 2.5 = 10", "2.5x * 4", "0.5a * (2b * c)", "1.5x * 2.5y", "(0.1p * 3) * q", "2.5 * (4n * 0.5)",
    # a coefficient times a power with a negated base; a negated power with a NON-literal exponent; both next to like terms
    "2x^2 + 3(-x)^2", "3(-x)^2 * x", "y + (2x^2 + 3(-x)^2)", "5(-x)^4 * 2x", "3 * (-x)^2 + x^2", "-x^n + x", "-x^n * x^2", "-a^(k + 1) + a", "-x^(2 + 3) * x", "x - x^n", "-x^y + -x^y",
    # a negation over a power of a constant with a non-integer exponent (its printed form must keep the sign outside the power)
    "-(5^1.5)", "-(2^3.5 * x)", "7 - -(4^1.5 / x)", "-(4^(1 + 0.5))", "-(5^1.25) + x", "-(9^0.5)", "-(3^2.5)", "x * -(2^1.5)", "-(5^3)", "-(5^2)",
    # a power with a NEGATED base next to a term in the same variable (even exponents: (-x)^2 is x^2, not -x^2)
    "(-x)^2 * x^3", "(-y)^4 + 3y^4", "(-x)^3 * x", "2x^2 + (-x)^2", "(-x)^2 * x^3 = 32", "(-2x)^2 + x^2", "(-x)^0.5 * x", "-x^2 + (-x)^2",
    # constant folds whose product / sum is the neutral element, at the ROOT of the tree
    "0.5x * 2", "4 * (0.25 * y)", "2 * 0.5x", "1x * 1", "-1 * (-1 * z)", "0.5 * (2 * (x + 1))", "x + 0 + 0", "(3 - 3) + y", "2x^2 * 0.5",
    # sums of bare constants with a negative one (factored only with constants=True)
    "y = -12 + 8", "y = -4 + 6", "y = 9 + -6", "-12 + 8", "9 + -6", "-4 + -6", "-9 + -6 + x", "-16 + 4", "-25 + 10 = z", "8 + -12",
    # more texts outside the documented grammar (a postfix factorial on a non-literal): skipped unless a parser accepts them
    "(-x)!", "(-(x + y))!", "(n - 1)!", "x!", "(2x)!^2", "-(x!)", "(-sgn(x))!", "x! + (x + 1)!",
    # texts the documented grammar does NOT derive (an equation inside a group): a parser that accepts
    # them hands the rules trees they were never written for; on the pinned parser they are simply skipped
    "-(3 = 2)", "2(x = 3)", "7 - (1 + 1 = 3)", "-(x = 3)", "sgn(2 = 3)", "(4 = 5)^2", "-(2 + 2 = 5) + x",
    # (const + non-const) times a product that starts with a variable; like terms with a common fraction and an exponent
    "xy(2 + k) = 24", "(2 + k) * (x * y)", "x^2 * (3 + y) = 12", "(4 + z)(x * y) = 8", "(2 + k)(x^2 * y) + 1", "0.5x^2 + 0.5x^2", "y + (0.25x^3 + 0.25x^3)", "0.5x^-1 + 0.5x^-1",
    # unlike variables with a common fractional coefficient AND equal explicit exponents
    "0.5x^2 + 0.5y^2", "z + (0.25x^3 + 0.25y^3)", "0.5x^2 + 0.5y^2 + 0.5z^2", "0.1x^-1 + 0.1y^-1",
    # a power of a power (even inner exponent, fractional outer one: sqrt of a square is |x|, not x)
    "(x^2)^0.5 = 3", "1 = (t^2)^-0.5 * 4", "(y^4)^0.25 + 1 = 3", "(x^2)^0.5 + x", "(x^2)^3", "4 + (y^3)^-2", "(x^2)^1.5 = 27", "((x^2)^0.5)^2 = 9", "(x^-2)^-0.5 = 2",
    # coefficients that differ in the last place (what folding 0.1 + 0.2 next to 0.3 leaves behind)
    "0.3x + 0.30000000000000004x", "x + 0.9999999999999999x", "3.3 + 3.3000000000000003", "0.3x + 0.1x + 0.2x", "0.30000000000000004x + 0.3x", "0.7x + (0.1 + 0.6)x",
    # a zero coefficient that only folding reveals (and whose folded type is numpy's)
    "(0.5 - 0.5)^2 * x = 0", "0.1^400 * x = 0", "(2 - 2)^0.5 * x = 0", "0^2.5 * y = 0", "(1.5 - 1.5) * x = 0", "0.0^2 * x + 1 = 1",
    # negative bases that fold through numpy, then a subtraction of the folded constant
    "7 - -2.5^3", "x - -2^-1 * y", "4 - -1.5^2 * x", "y - -0.5^3", "(6 + 9)^30", "(8 + 4)^40 + x", "(4 + 16) * 10^19 * 10^19", "(9 + 9)^20 * x",
    # the same letter in both cases is two different variables
    "2x + 3X", "4p^2 + 3P^2", "x * X", "2x * 3X^2", "(2x + y) + 3X", "2x + 3X = 10", "x + X = 2x", "x / X", "x - X", "X + (x + X)",
    "1.5x + 1.5x", "0.1x + 0.2x", "0.1 + 0.2", "0.1 * 3", "1 / 3", "2 / 3 * 3", "10 * 0.1", "1000000 * 1000000", "99999 * 99999 + 1", "7x + 7x^1", "x^2 + x^2.0",
    # factorial of a literal written with a decimal point (whole value): the printed form drops the point
    "3.0!", "4.! + x", "x + 3.0!", "03.00! * y", "2 * 5.0! - z", "0.0! + 1.0!",
    # coefficients with a fractional part beyond 2^32 (every value exactly representable; a half is not rounding noise)
    "3x + 4294967297.5x", "8589934594x - (4294967296.5x + 4294967297.5x)", "4294967297.5x + 2x = 1", "5000000000.25y + 3y", "2y + 9999999999.5y", "4294967296.5z^2 + 4294967297.5z^2",
    "1073741824.5x + x", "3.5x + 8589934592.5x",
    # folds whose result is tiny, or needs all 17 digits: a constant is not 'noise' because it is small
    "x = 3 / 8000000000000000", "x = 0.00000001 * 0.00000003", "x = 1 / 7000000000", "y = 0.000001 * 0.000001x", "3 / 8000000000000000 + y",
    "1 / 7000000000 * z", "0.00000000000000002 + 0.00000000000000001 + x", "x = 0.000000001 / 3", "2y = 1 / 3000000000000", "0.0000001 * (0.0000003 * p)",
    "1 / 3 + x", "x = 2 / 3", "7 / 9 * y = 1", "1 / 30000 + (1 / 70000 + x)", "x = 123456789 / 1000000000000000000",
]


# large and tiny constants: driven with every rule except distributive factoring (whose
# factor() helper enumerates divisors up to sqrt(n), minutes for n ~ 1e18)
BIG_TEXTS = [
    "9007199254740993 + 2", "123456789012 * 1000003", "2^62 * 4 + x", "(9007199254740992 + 1) - 9007199254740992", "1000000000000000000000 * x + 1",
    "3 * (1000000007 * x)", "-(4294967296 * 4294967296)", "10^15 + 10^15 + x", "(99999999999x * 99999999999) + 1", "99999999999 * (99999999999 * x)",
    "x - -18446744073709551616", "x + -9223372036854775808", "18446744073709551617 / x", "x * (2^64 + y)", "18446744073709551616x * 3x^2",
    "0.0000001 + 0.0000002", "0.00002 * x * 0.5", "1 / 80000 + x", "x / 0.0000001", "123456789.123456789 - x", "2^-20 + x", "5^-9 * 5^9", "7 / 3 + 2 / 3",
    # exact integer folds beyond the range of a float (2^1024 ~ 1.8e308)
    "2^1024", "x + 10^309", "-(3^400 * 3^400)", "2^1023 + 2^1023", "10^400 - 1 + x", "7^500 * 7^500",
    # quotients of large constants with a genuine fractional part, and cancellation after them
    "2469135781 / 2 - 1234567890", "12345678901 / 2 + x", "(10^12 + 1) / 2", "1000000001 / 4 * x", "9007199254740993 / 2", "x + 2469135781 / 2 - 1234567890",
    "(2^40 + 1) / 2^20 - 2^20", "123456789012 / 1000 - 123456789",
    # folded FLOAT constants at the boundaries of float printing (>= 1e16, >= 1e21/1e22, < 1e-4, denormal-ish)
    "123456789.5 * 1000000000 + x", "2.5 * 10^21 - x", "0.5 * 10^22 + x", "(1 / 3) * 10^20", "10^22 * 0.1", "0.00001 / 1000000 + x", "0.5^40 * x", "2.5^60 + x",
    "0.1^300 + x", "1.5 * 10^300 * x", "9007199254740993 * 0.5", "0.3 - 0.1 - 0.2 + x",
    "0.1 + 0.2 + 0.3 + x", "1000000 * 0.000001", "33 * 0.01 - x", "(1 / 3) * 3 = x", "x = 1 / 1000000",
]
# an exact integer beyond the range of a double next to a float, in every constant-arithmetic arrangement: the fold
# itself overflows (an OverflowError is a loud refusal; whatever comes back instead must still be a sound tree)
_H = "1" + "0" * 399
BIG_TEXTS += [f"2.5x * {_H}", f"0.5 + ({_H} + y)", f"{_H} * (1.5 * y)", f"{_H} * 2.5", f"({_H} + 0.5) + x", f"{_H}x * 0.5", f"(x * 2.5) * {_H}", f"{_H} + (0.5 + y)",
              f"z = 1.5y * {_H}", f"{_H} * (2x * 0.25)", f"(0.5 + x) + {_H}", f"{_H} / 2.5 + x", f"3x * {_H}", f"{_H} * {_H} + 0.5x"]


# like terms whose integer coefficient needs more than 64 bits (exact in Python, beyond numpy's integer types): with
# every rule, factoring included
WIDE_INT_TEXTS = ["18446744073709551617x + x", "18446744073709551616x + 2x", "x + 18446744073709551617x = 4", "36893488147419103232y^2 + 2y^2",
                  "18446744073709551617 + 18446744073709551619", "3z * 18446744073709551629 + z", "18446744073709551617x + 18446744073709551617x"]


MANY_DIGIT_TEXTS = ["100000.25 + 2.5", "3x * (100000.25 + 2.5) + y", "1.2345678x + 2.25x", "1.2345678 * 2 + z", "0.707106781186548 + 4", "123456.789 - 0.001 + x",
                    "x = 9.87654321 * 3", "12345.678 * 0.5y", "y = 2.718281828 - 1.414213562", "1.2345678x + 2.25x + (0.707106781 + 4)", "33333.25x + 11111.5x", "7 / 3 + x",
                    "0.123456789 * 1000", "99999.5 + 0.25 = z"]


def wide_ints(rec, rules):
    """the wide-integer texts with every rule: listing, first match, and every listed application on a tree of
    its own.  Apart from the general stream because the pinned factoring rule cannot even be asked about them
    (see known_findings.json): every call is guarded here, the monitors decide each one."""
    for text in WIDE_INT_TEXTS:
        for label, rule in rules:
            root = parse_start(text, allow_big=True)
            if root is None:
                continue
            rec.arm("start:wide-int-text")
            try:
                count = len(rule.find_nodes(root))
            except Exception:
                count = 0
            try:
                rule.find_node(root)
            except Exception:
                pass
            for j in range(min(count, 4)):
                t = parse_start(text, allow_big=True)
                try:
                    nodes = rule.find_nodes(t)
                    if j < len(nodes):
                        rule.apply_to(nodes[j])
                except Exception:
                    pass


def long_texts():
    """size/depth boundaries: sums and products far longer (and deeper) than any generated one"""
    vs = "abcdfghjklmnopqrstuvwxyz"
    out = []
    for n in (33, 65, 101, 130):
        out.append(" + ".join(f"{(i % 7) + 1}{vs[i % 24]}" for i in range(n)))
        out.append(" + ".join(f"{(i % 5) + 1}x" if i % 3 else f"{vs[i % 24]}^2" for i in range(n)))
    out.append(" * ".join(vs[i % 24] for i in range(40)))
    out.append(" * ".join(f"{(i % 3) + 2}x" for i in range(34)))
    out.append(" - ".join(f"{i + 1}y" for i in range(70)))
    out.append("(" * 30 + "x" + " + 1)" * 30)

    out.append("-(" * 30 + "x" + ")" * 30)
    out.append(" + ".join(f"{i + 1}x" for i in range(101)) + " = " + " + ".join(f"{i + 2}y" for i in range(33)))
    return out


def huge_token_texts():
    """single tokens far longer than any buffer size, not at the start of the text (parser and
    tokenizer checks only: a 600-letter run is a product chain 600 levels deep)"""
    return ["x + " + "7" * 600, "2 * 0." + "3" * 700 + " + y", "(y - 1) * (" + "12345678" * 140 + ")", "2" + "a" * 512 + "sgn(0 - 3)",
            "4 + " + "xyz" * 200 + " - 1", "1 + " + "9" * 513 + " * x", "x^" + "2" * 520 + " + 1" if False else "3 * " + "8" * 1025] + [
            # integer literals around the interpreter's own limit for int(str) (4300 digits by default): up to the
            # limit they are exact integers, beyond it int() itself refuses (a ValueError like any malformed number)
            pre + "".join("1234567890"[(i * 7 + n) % 10] for i in range(n)).lstrip("0") + post
            for n in (2049, 4000, 4001, 4200, 4299, 4300, 4301, 5000, 8100) for pre, post in (("x - ", ""), ("", " = y"))]


def required_apply_arms(minimum=3, rules=None):
    req = {}
    for label, tags in ARMS.items():
        if rules is not None and label not in rules:
            continue
        for t in tags:
            req[f"apply:{label}/{t}"] = minimum
    return req


def problem_texts(cfg, rng, n):
    """W2: text of the repository's own problem generators (both number modes)."""
    from mathy_core import problems as P

    st = random.getstate()
    out = []
    try:
        random.seed(cfg.seed * 7919 + cfg.shard * 101 + 17)
        for i in range(n):
            P.use_pretty_numbers(i % 3 != 0)
            g = rng.choice([
                lambda: P.gen_simplify_multiple_terms(rng.randint(2, 7)), lambda: P.gen_binomial_times_binomial(),
                lambda: P.gen_binomial_times_monomial(), lambda: P.gen_commute_haystack(4, 6),
                lambda: P.gen_move_around_blockers_one(rng.randint(1, 3)), lambda: P.gen_move_around_blockers_two(rng.randint(1, 3)),
                lambda: P.gen_combine_terms_in_place(4, 8), lambda: P.gen_simplify_multiple_terms(rng.randint(3, 6), op=["+", "-"], powers_probability=0.8),
                lambda: P.gen_binomial_times_binomial(simple_variables=False, powers_probability=0.8, like_variables_probability=0.5),
            ])
            try:
                out.append(g()[0])
            except Exception:
                pass
    finally:
        P.use_pretty_numbers(True)
        random.setstate(st)
    return out


def start_texts(cfg, rng, n_random, equations=0.25):
    """(source, text, hints) stream: W1 corpus, W2 problems, W3/W4 random and templates."""
    corp = WT.corpus()
    # deterministic lists: partitioned among the shards (every text is driven by exactly one shard;
    # the guaranteed arm texts by two, so that a single slow shard cannot starve a required arm)
    k = 0
    for s in ARM_TEXTS:
        k += 1
        if cfg.mine(k) or cfg.mine(k + 1):
            yield "arm-text", s, []
    for s in EDGE_TEXTS:
        k += 1
        if cfg.mine(k):
            yield "edge-text", s, []
    for s in BIG_TEXTS:
        k += 1
        if cfg.mine(k):
            yield "big-text", s, []
    from .. import core as _core

    if _core.CALLER_ENV[0]:
        # the shard that runs with the caller's own decimal context / print options drives every text whose
        # constants carry more digits than such settings keep
        for s in MANY_DIGIT_TEXTS:
            yield "edge-text", s, []
    for s in ARM_TEXTS:
        for v in WE.substituted(s):
            k += 1
            if cfg.mine(k):
                yield "near-text", v, []
    for i, s in enumerate(long_texts()):
        if cfg.mine(i):
            yield "long-text", s, []
    for i, s in enumerate(corp):
        if cfg.mine(i):
            yield "corpus", s, []
    for s in problem_texts(cfg, rng, max(4, n_random // 25)):
        yield "problems", s, []
    for i in range(n_random):
        if rng.random() < equations:
            s, hints = WE.equation(rng)
            yield "equation", s, hints
        else:
            yield "random", WE.random_expr(rng), []


_STARTS = [0]


def parse_start(text, allow_big=False):
    MR.new_lineage()
    try:
        root = D.parse(text)
    except Exception:
        return None
    sh = S.shadow(root)
    if (D.too_big(sh) and not allow_big and not D.is_long(sh) and text not in WIDE_INT_TEXTS) or S.has_nonfinite(sh):
        return None
    _STARTS[0] += 1
    if _STARTS[0] % 6 == 0:
        numpify(root)
    from ..workloads import copies as _CP

    if _STARTS[0] % 9 == 4:
        collide_with_future_ids(root)
    elif _STARTS[0] % 11 == 5 and S.size(sh) <= 40:
        root = twin_siblings(root)
    return _CP.routed(root, "start-tree", every=7)


def collide_with_future_ids(root):
    """node ids come from a process-wide counter: a tree that was pickled in another process (or built before the
    counter was where it is now) carries ids that the nodes created NEXT in this process will receive as well.
    The start tree is renumbered with exactly those ids."""
    import re
    from mathy_core.tree import BinaryTreeNode
    from .. import core

    m = re.match(r"^(.*?)(\d+)$", str(BinaryTreeNode().id))
    if not m:
        return
    prefix, n = m.group(1), int(m.group(2))
    for i, node in enumerate(S.nodes_preorder(root)):
        node.id = f"{prefix}{n + 1 + i}"
    core.REC.arm("start:ids-of-the-nodes-created-next")


def twin_siblings(root):
    """an expression next to its own clone (clone() keeps the ids): same-id nodes as siblings, and as cousins all
    the way down -- what a caller gets from t + t.clone(), or from doubling one side of an equation"""
    from mathy_core import expressions as E
    from .. import core

    try:
        if isinstance(root, E.EqualExpression):
            l, r = root.left, root.right
            if isinstance(l, E.EqualExpression) or isinstance(r, E.EqualExpression):
                return root      # a chain a = b = c: an equation is not an addend

            new = E.EqualExpression(E.AddExpression(l.clone(), l.clone()), E.MultiplyExpression(E.ConstantExpression(2), r.clone()))
        else:
            new = E.AddExpression(root.clone(), root.clone())
    except Exception:
        return root
    core.REC.arm("start:an-expression-next-to-its-clone")
    return new


def numpify(root):
    """every sixth start tree carries its non-integer constants as numpy.float64 -- the type the
    library's own constant folding leaves in a tree (np.power, np.float64 arithmetic) -- instead of
    Python floats: same values, same text, another numeric type flowing through every rule"""
    import numpy as np
    from mathy_core.expressions import ConstantExpression
    from .. import core

    n = 0
    for node in S.nodes_preorder(root):
        if isinstance(node, ConstantExpression) and type(node.value) is float:
            node.value = np.float64(node.value)
            n += 1
    if n:
        core.REC.arm("start:float-constants-as-numpy-float64")
    return root


def rules_for(src, rules):
    """big-text starts are driven without the two factoring instances"""
    if src == "big-text":
        return [(l, r) for l, r in rules if not l.startswith("DF")]
    return rules


def with_flippers(rules):
    """two more long-lived instances whose public option is changed between uses (rule.preferred,
    rule.constants are plain attributes): whatever a rule instance remembers must not outlive a
    change of its own settings.  The monitors take their reference from a fresh instance built
    with the instance's *current* settings (MR.fresh_like reads them at call time)."""
    import mathy_core.rules as R

    a, b = R.CommutativeSwapRule(), R.DistributiveFactorOutRule()
    a._vmon_flipper = b._vmon_flipper = True
    return list(rules) + [("CS", a), ("DF", b)]


def copied_rules(rules, rng):
    """now and then a rule instance is replaced by a deep / unpickled / shallow copy of itself (same class, same options)"""
    from ..workloads import copies as _CP

    if rng.random() < 0.05:
        i = rng.randrange(len(rules))
        label, rule = rules[i]
        rules = list(rules)
        rules[i] = (label, _CP.routed(rule, "rule", every=1, shallow=True))
    return rules


def flip(rules, rng):
    from .. import core
    from ..monitors import rules as MR

    out = []
    for l, r in rules:
        if getattr(r, "_vmon_flipper", False) and rng.random() < 0.5:
            if hasattr(r, "preferred"):
                r.preferred = not r.preferred
            elif hasattr(r, "constants"):
                r.constants = not r.constants
            core.REC.arm("rules:option-changed-on-a-used-instance")
            l = MR.rule_label(r)
        out.append((l, r))
    return copied_rules(out, rng)
