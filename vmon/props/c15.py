"""C15 -- rotation preserves the in-order sequence and link consistency."""
from .. import core
from ..monitors import tree as MT
from ..oracles import shadow as S
from ..workloads import shapes as W9

MANIFEST = dict(
    technique='runtime contract on BinaryTreeNode.rotate (entry snapshot of in-order object sequence and links, exit audit); exhaustive shape workload',
    text="Every rotate() call (workload, and the associative rule's internal ones) is checked at exit against the in-order sequence and links recorded at entry; all shapes up to the bound x all nodes are driven (also with repeating and identical node ids), plus rotation histories: rotations interleaved with child swaps and subtree moves on the same node objects, and in-place sequences of the associative and commutative rules.",
    note='Trusts CPython and our link audit.',
    ref='DESIGN.md 3/C15',
)

RULE = (
    "W9: every binary tree shape up to N nodes (quick 9, thorough 11) x every node (incl. the root), built from raw "
    "BinaryTreeNode and from expression classes; random shapes to 120 nodes; rotations performed by the associative "
    "rule on parsed sums/products at every position.  The monitor on BinaryTreeNode.rotate snapshots the in-order "
    "object sequence and the parent/grandparent links at entry and audits them at exit.  distinct non-trivial = "
    "(shape, node position) of a non-root rotation."
)
ASSUMPTIONS = ["in-order sequence and links are read from left/right/parent attributes by our own recursion"]
EXHAUSTIVE = True
SHARDS = {"quick": 8, "thorough": 16}
DEADLINE = {"quick": 60, "thorough": 600}


def REQUIRED(tier):
    req = {"rotate:root": 20, "rotate:via-associative-rule": 5, "rotate:histories": 100, "rotate:rule-sequences": 20, "rotate:local-histories": 1000, "rotate:deep": 20}
    for side in ("left", "right"):
        for g in ("no-grandparent", "under-L", "under-R"):
            for inner in ("inner", "no-inner"):
                req[f"rotate:{side}-child:{g}:{inner}"] = 10
    return req


def factories():
    from mathy_core.tree import BinaryTreeNode
    from mathy_core import expressions as E

    def raw(l, r, i):
        return BinaryTreeNode(l, r)

    def expr(l, r, i):
        if l is None and r is None:
            return E.VariableExpression("abc"[i % 3])
        return E.MathExpression(None, l, r)

    def dup(l, r, i):
        # node ids are NOT unique in real trees: clone() copies them and rules insert several
        # clones of one term
        return BinaryTreeNode(l, r, None, f"i{i % 2}")

    def same(l, r, i):
        n = E.MathExpression(None, l, r)
        n.id = "same"
        return n

    class Postfix(E.UnaryExpression):
        """a unary operator written after its operand: the public child_on_left option of
        UnaryExpression keeps the operand in the LEFT slot"""

        def __init__(self, child=None):
            super().__init__(child, child_on_left=True)

    BIN = (E.AddExpression, E.MultiplyExpression, E.SubtractExpression, E.DivideExpression, E.PowerExpression, E.EqualExpression)
    UN = (E.NegateExpression, E.SgnExpression, E.FactorialExpression, E.AbsExpression)

    def typed(l, r, i):
        # the concrete expression classes, chosen by what the shape has at this node: a node with
        # only a left child is a postfix unary operator, one with only a right child a prefix one
        if l is None and r is None:
            return E.VariableExpression("abc"[i % 3]) if i % 2 else E.ConstantExpression(i)
        if l is not None and r is not None:
            return BIN[i % len(BIN)](l, r)
        if r is not None:
            return UN[i % len(UN)](r)
        return Postfix(l)

    def typed_odd(l, r, i):
        # the same concrete classes, but NOT matched to the shape: a leaf may be a unary operator that
        # has no operand yet, a one-child node may keep its child on the side its class does not
        # use, a two-child node may be a unary class (trees under construction / after an edit)
        if l is None and r is None:
            return (E.NegateExpression() if i % 3 == 0 else E.FactorialExpression(None, True) if i % 3 == 1 else E.VariableExpression("q"))
        if l is not None and r is not None:
            n = BIN[i % len(BIN)](l, r) if i % 4 else E.SgnExpression()
            if i % 4 == 0:
                n.set_left(l)
                n.set_right(r)
            return n
        n = UN[i % len(UN)]() if i % 2 else Postfix()
        if l is not None:
            n.set_left(l)      # a prefix class with its child on the LEFT when i is odd
        else:
            n.set_right(r)     # a postfix class with its child on the RIGHT when i is even
        return n

    class Sized(BinaryTreeNode):
        """what a user of the node class writes: an augmented tree keeping a value per node up to date
        by overriding the public setters (and calling super())"""

        def __init__(self, left=None, right=None):
            self.size = 1
            self.relinked = 0
            super().__init__(left, right)

        def set_left(self, child=None, clear_old_child_parent=False):
            res = super().set_left(child, clear_old_child_parent)
            self.relinked += 1
            return res

        def set_right(self, child=None, clear_old_child_parent=False):
            res = super().set_right(child, clear_old_child_parent)
            self.relinked += 1
            return res

    class OnlyLeft(BinaryTreeNode):
        def set_left(self, child=None, clear_old_child_parent=False):
            return super().set_left(child, clear_old_child_parent)

    class Keyed(E.MathExpression):
        """an expression subclass overriding one setter and the side look-up in a behaviour-preserving way"""

        def set_right(self, child=None, clear_old_child_parent=False):
            return super().set_right(child, clear_old_child_parent)

        def get_side(self, child):
            return super().get_side(child)

    def sized(l, r, i):
        return Sized(l, r)

    def mixed(l, r, i):
        # classes with and without overrides in one tree
        return (Sized, BinaryTreeNode, OnlyLeft)[i % 3](l, r)

    def keyed(l, r, i):
        return Keyed(None, l, r)

    return {"raw": raw, "expr": expr, "dup-ids": dup, "same-id": same, "typed": typed, "typed-odd": typed_odd, "sized": sized, "mixed-overrides": mixed, "keyed-expr": keyed}


def drive(rec, s, fac):
    from ..workloads import copies as _CP

    n = W9.count(s)
    for kn, f in fac.items():
        for i in range(n):
            root = _CP.routed(W9.build(s, f), "tree", every=9)
            node = S.nodes_preorder(root)[i]
            around = [x for x in (node, node.parent, node.parent.parent if node.parent is not None else None) if x is not None]
            if i % 2 == 0:
                for x in around:          # the look-ups are asked before the rotation ...
                    x.get_children()
                    x.get_sibling()
            node.rotate()
            for x in around:              # ... and after it (decided by the look-up monitors)
                x.get_children()
                x.get_sibling()
                x.get_root()
            # rotate back (another rotation of the old parent, now a child of `node`)
            if kn == "raw" and i > 0:
                back = node.right if (node.right is not None and node.right.parent is node and i % 2) else None
                if back is not None:
                    back.rotate()


def rotate_after_refused_calls(rec):
    """calls the API refuses (a node as its own child, a side look-up for a stranger, rotate on a detached pair)
    are part of a tree's history: after them the tree is as it was, and a valid rotation behaves as ever"""
    from mathy_core.tree import BinaryTreeNode as B

    def inorder(r):
        out, stack, cur = [], [], r
        while stack or cur is not None:
            while cur is not None:
                stack.append(cur)
                cur = cur.left
            cur = stack.pop()
            out.append(cur)
            cur = cur.right
        return out

    for shape in range(8):
        for clear in (True, False):
            a, b, c, d, e = B(), B(), B(), B(), B()
            n = B(a, b)
            p = B(n, c) if shape % 2 == 0 else B(c, n)
            g = B(p, d) if shape % 4 < 2 else B(d, p)
            root = B(g, e) if shape < 4 else g
            before = inorder(root)
            refused = 0
            for x in (root, g, p, n):
                for setter in (x.set_left, x.set_right):
                    try:
                        setter(x, clear_old_child_parent=clear)      # "nodes cannot be their own children"
                    except ValueError:
                        refused += 1
                try:
                    x.get_side(B())
                except ValueError:
                    refused += 1
            rec.ev()
            rec.arm("rotate:after-refused-calls")
            n.rotate()
            after = inorder(root)
            ok = (len(after) == len(before) and all(x is y for x, y in zip(after, before)) and n.parent is g and (g.left is n or g.right is n) and p.parent is n
                  and all(ch is None or ch.parent is x for x in after for ch in (x.left, x.right)))
            if not ok:
                rec.violation("C15", "rotate", "rotate breaks the in-order sequence or the link structure",
                              {"refused": True, "summary": f"after {refused} refused calls (set_left/set_right with the node itself, clear_old_child_parent={clear}; get_side of a stranger) on a small tree, "
                               f"rotating a grandchild: in-order sequence has {len(after)} of {len(before)} nodes / links inconsistent"})


def rotate_beside_a_very_deep_subtree(rec):
    """rotate is a constant-time re-linking: the size or depth of the rest of the tree (a search tree
    filled with sorted keys is one long spine) has nothing to do with it.  Built and checked with
    loops only; the monitors (which walk the tree recursively) are bypassed."""
    from mathy_core.tree import BinaryTreeNode as B

    f = getattr(B.rotate, "__vmon_original__", B.rotate)
    for depth in (2000, 7000, 50000):
        for deep_side in ("L", "R"):
            def link(l, r):          # the three public link attributes, set directly (no method of the class runs)
                n = B()
                n.left, n.right = l, r
                for ch in (l, r):
                    if ch is not None:
                        ch.parent = n
                return n

            spine = B()
            for _ in range(depth):
                spine = link(spine, None) if deep_side == "L" else link(None, spine)
            a, b, c = B(), B(), B()
            parent = link(a, b)
            small = link(spine, parent) if deep_side == "L" else link(parent, spine)   # the node's uncle is the spine
            root = link(small, c)
            for node in (a, parent):
                gp, par = node.parent.parent, node.parent
                was_left = par.left is node
                inner = node.right if was_left else node.left
                rec.ev()
                rec.arm("rotate:beside-a-very-deep-subtree")
                try:
                    f(node)
                    err = None
                except BaseException as e:
                    err = e
                ok = (err is None and node.parent is gp and (gp.left is node or gp.right is node) and par.parent is node
                      and (node.right is par if was_left else node.left is par) and ((par.left is inner) if was_left else (par.right is inner))
                      and (inner is None or inner.parent is par) and root.parent is None)
                if not ok:
                    rec.violation("C15", "rotate", "rotate breaks the in-order sequence or the link structure",
                                  {"deep": True, "summary": f"rotating a node two levels below the root of a tree whose other subtree is a spine {depth} deep: "
                                   + (f"raised {type(err).__name__}" if err is not None else "links are inconsistent afterwards")})
                    break


def run(rec, cfg):
    if cfg.shard == 6 % cfg.nshards:
        rotate_beside_a_very_deep_subtree(rec)
    if cfg.shard == 5 % cfg.nshards:
        rotate_after_refused_calls(rec)
    MT.attach_rotate("C15")
    MT.attach_queries("C15")   # after a rotation the public look-ups (children, sibling, root, side) agree with the new links
    fac = factories()
    nmax = cfg.scale(9, 11)
    idx = 0
    for s in W9.all_shapes_upto(nmax):
        idx += 1
        if not cfg.mine(idx):
            continue
        if cfg.out_of_time():
            rec.truncated = True
            break
        drive(rec, s, fac)
        rec.arm("shapes:exhaustive")
        if idx % 131 == 0:
            rec.sample({"shape": W9.shape_str(s), "nodes": W9.count(s), "rotated": "every node"})
    rec.notes["exhaustive_bound_nodes"] = nmax
    rng = cfg.rng("c15")
    for i in range(cfg.scale(5, 30)):
        if cfg.out_of_time():
            rec.truncated = True
            break
        s = W9.random_shape(rng, rng.randrange(10, cfg.scale(50, 120)), rng.choice([0.1, 0.3, 0.6]))
        drive(rec, s, {"raw": fac["raw"]})
        rec.arm("shapes:random-large")
        rec.sample({"shape": W9.shape_str(s)[:120], "nodes": W9.count(s)})
    # deep trees: chains and zig-zags far deeper than any random shape, rotated at many depths
    # (including just below/above round numbers), and the deepest operators of long parsed sums
    if cfg.shard < 4:
        for n_nodes, side in ((130, "L"), (130, "R"), (380, "L"), (380, "R"), (380, "Z"), (257, "Z")):
            s = W9.zigzag(n_nodes) if side == "Z" else W9.chain(n_nodes, side)
            depths = sorted(set([1, 2, 31, 32, 33, 63, 64, 65, 99, 100, 101, 127, 128, 129, 199, 200, 201, 255, 256, 257, n_nodes - 2, n_nodes - 1]
                                + [rng.randrange(1, n_nodes) for _ in range(6)]))
            for d in depths:
                if d >= n_nodes or d % 4 != cfg.shard:
                    continue
                root = W9.build(s, fac["raw"])
                node = root
                for _ in range(d):
                    node = node.left if node.left is not None else node.right
                node.rotate()
                rec.arm("rotate:deep")
        from mathy_core.parser import ExpressionParser as _PP
        from mathy_core.rules import AssociativeSwapRule as _AG

        for terms in (40, 140):
            t = " + ".join("x%s" % "" for _ in range(terms)).replace("x", "a")
            root = _PP().parse(t)
            nodes = _AG().find_nodes(root)
            for n in nodes[:: max(1, len(nodes) // 12)]:
                c = n.clone_from_root()
                _AG().apply_to(c)
                rec.arm("rotate:deep-parsed-sum")
    # rotation HISTORIES: rotations interleaved with other structural edits through the public API
    # (child swaps, moving subtrees between trees, wrapping, detaching) on the same node objects,
    # so that anything a node remembered about its neighbours is stale when it is rotated next
    from . import c14 as H

    fac14 = H.factories()
    for i in range(cfg.scale(2500, 30000)):
        if cfg.out_of_time():
            rec.truncated = True
            break
        kn = rng.choice(["raw", "expr"])
        H.mutation_history(rec, rng, fac14[kn], kn, steps=rng.randint(6, 20))
        rec.arm("rotate:histories")
    # local histories: rotations and child swaps concentrated on one node and its neighbours
    def swap(n):
        l, r = n.left, n.right
        n.set_left(r)
        n.set_right(l)

    small = [sh for k in range(3, 8) for sh in W9.shapes(k)]
    for i in range(cfg.scale(4000, 60000)):
        if i % 256 == 0 and cfg.out_of_time():
            rec.truncated = True
            break
        t = W9.build(rng.choice(small), fac["raw"])
        nodes = S.nodes_preorder(t)
        y = rng.choice(nodes)
        for _ in range(rng.randint(3, 9)):
            around = [n for n in (y, y.parent, y.left, y.right, y.parent.parent if y.parent is not None else None) if n is not None]
            n = rng.choice(around)
            try:
                if rng.random() < 0.6:
                    n.rotate()
                else:
                    swap(n)
            except Exception:
                break  # only possible once an earlier step has corrupted the links (already reported)
        rec.arm("rotate:local-histories")
    # in-place sequences of the associative and commutative rules on one expression tree
    from mathy_core.parser import ExpressionParser as _P
    from ..monitors import rules as MR
    from ..workloads import drive as D

    acr = [(l, r) for l, r in MR.rule_instances() if l in ("AG", "CS")]
    for t in ["(a + b) + c + d", "a * b * c * d", "(a + b) + (c + d) + e", "(a * b) * (c * d)", "((a + b) + c) + (d + (e + f))", "2x + 3y + 4z + 5"]:
        for k in range(cfg.scale(6, 60)):
            try:
                D.inplace_chain(rec, _P().parse(t), acr, rng, steps=rng.randint(3, 10))
            except Exception:
                pass
            rec.arm("rotate:rule-sequences")
    # rotations done by the associative rule
    from mathy_core.parser import ExpressionParser
    from mathy_core.rules import AssociativeSwapRule

    rule = AssociativeSwapRule()
    texts = ["2x + 2x + 2x", "(a + b) + (a + b)", "a + (b + c)", "((a + b) + c) + d = e", "x * (y * z) * w", "2 * (a * b) + (c + (d + e)) + f",
             "(p + q) + (r + s)", "-((a + b) + c)", "sgn((a * b) * c)", "4(x + (y + z))", "(a + (b + (c + d))) * ((e * f) * g)"]
    # trees that contain clones of one term (equal ids on siblings)
    from mathy_core import expressions as E

    for k in range(3):
        t1 = ExpressionParser().parse(["2x", "a + b", "x * y"][k])
        tree = E.AddExpression(E.AddExpression(t1, t1.clone()), E.AddExpression(t1.clone(), t1.clone())) if k != 2 else E.MultiplyExpression(E.MultiplyExpression(t1, t1.clone()), t1.clone())
        n_nodes = len(S.nodes_inorder(tree))
        for i in range(n_nodes):
            c = tree.clone()
            S.nodes_inorder(c)[i].rotate()
            rec.arm("rotate:cloned-subterms")
    for t in texts:
        n_nodes = len(ExpressionParser().parse(t).to_list())
        for i in range(n_nodes):
            root = ExpressionParser().parse(t)
            node = S.nodes_inorder(root)[i]
            if rule.can_apply_to(node):
                rule.apply_to(node)
                rec.arm("rotate:via-associative-rule")


def replay(rec, cfg, w):
    if w.get("refused"):
        rotate_after_refused_calls(rec)
        return
    if w.get("deep"):
        rotate_beside_a_very_deep_subtree(rec)
        return
    MT.attach_rotate("C15")
    s = W9.parse_shape(w["shape"])
    drive(rec, s, factories())
