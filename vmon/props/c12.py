"""C12 -- parser results do not depend on call history."""
from .. import core
from ..monitors import parse as MP
from ..workloads import histories as W8
from ..workloads import text as WT

MANIFEST = dict(
    technique='history monitor (recorded call/return log of one parser, each answer compared with a fresh parser); list-edit workload',
    text='Long random histories of parse/tokenize/clear_cache with consumed and edited token lists are logged at the client boundary and every answer is compared structurally with what a fresh parser returns. Held on the histories observed.',
    note='History alphabet: parse, tokenize, clear_cache, list-level edits of returned token lists.',
    ref='DESIGN.md 3/C12',
)

RULE = (
    "W8: histories of 50-500 parse / tokenize / clear_cache calls on one ExpressionParser over a small pool of texts "
    "(valid, invalid, padding variants of the same text), with returned token lists popped, cleared, overwritten, "
    "extended and reversed between calls.  History monitors on parse and tokenize log every call and compare each "
    "answer (tree shadow incl. constant types / token tuples / exception class) with a fresh parser's answer.  "
    "distinct non-trivial = (recent history, query) of a compared call whose text occurred earlier in the same history."
)
ASSUMPTIONS = ["only list-level edits of returned token lists are in the history alphabet (mutating a shared Token object or a "
               "returned cached tree is outside the property)"]
SHARDS = {"quick": 8, "thorough": 16}
DEADLINE = {"quick": 50, "thorough": 420}
REQUIRED = {"history:compared": 1000, "history:tokenize-compared": 1000, "history:repeat-query": 1000, "history:after-failure": 500,
            "calls:clear_cache": 50, "calls:edits": 500}


def run(rec, cfg):
    from mathy_core.parser import ExpressionParser

    MP.attach_parser("C12", {"history"}, with_budget=False)
    MP.attach_parser_tokenize("C12")
    rng = cfg.rng("c12")
    corp = WT.corpus()
    for h in range(cfg.scale(200, 2500)):
        if cfg.out_of_time():
            rec.truncated = True
            break
        p = ExpressionParser()
        p._vmon_history = []
        pool = W8.text_pool(rng, corp, n_valid=rng.randint(2, 5), n_invalid=rng.randint(1, 4))
        st = W8.drive_history(p, rng, pool, rng.randint(50, cfg.scale(200, 500)))
        rec.arm("histories")
        for k, v in st.items():
            rec.arm("calls:" + k, v)
        if h % 25 == 0:
            rec.sample({"pool": [t[:50] for t in pool], "calls": st})


def replay(rec, cfg, w):
    from mathy_core.parser import ExpressionParser

    MP.attach_parser("C12", {"history"}, with_budget=False)
    MP.attach_parser_tokenize("C12")
    p = ExpressionParser()
    p._vmon_history = []
    W8.replay_history(p, w.get("history", []))
    for f in (p.parse, p.tokenize):
        try:
            f(w["text"])
        except Exception:
            pass
