"""C12 -- parser results do not depend on call history."""
from .. import core
from ..monitors import parse as MP
from ..workloads import histories as W8
from ..workloads import text as WT

MANIFEST = dict(
    technique='history monitor (recorded call/return log of one parser, each answer compared with a fresh parser); list-edit workload',
    text='Long random histories of parse/tokenize/clear_cache with consumed and edited token lists are logged at the client boundary and every answer is compared structurally with what a fresh parser returns. Held on the histories observed.',
    note='History alphabet: parse, tokenize, clear_cache, list-level edits of returned token lists.',
    ref='DESIGN.md 3/C12',
)

RULE = (
    "W8: histories of 50-500 parse / tokenize / clear_cache calls on one ExpressionParser over a small pool of texts "
    "(valid, invalid, padding variants of the same text, inputs that fail deep inside nested groups); every other history "
    "continues on one parser that lives as long as the shard (thousands of calls); with returned token lists popped, cleared, overwritten, "
    "extended and reversed between calls.  History monitors on parse and tokenize log every call and compare each "
    "answer (tree shadow incl. constant types / token tuples / exception class) with a fresh parser's answer.  "
    "distinct non-trivial = (recent history, query) of a compared call whose text occurred earlier in the same history."
)
ASSUMPTIONS = ["only list-level edits of returned token lists are in the history alphabet (mutating a shared Token object or a "
               "returned cached tree is outside the property)"]
SHARDS = {"quick": 8, "thorough": 16}
DEADLINE = {"quick": 50, "thorough": 420}
REQUIRED = {"history:compared": 1000, "history:tokenize-compared": 1000, "history:repeat-query": 1000, "history:after-failure": 500,
            "calls:clear_cache": 50, "calls:edits": 500, "histories:on-the-long-lived-parser": 20, "histories:deep-failures-in-pool": 20, "history:deep-chain-repeated": 5}


def deep_repeat(rec, prop="C12"):
    """the same very long chain asked several times of one parser, under the interpreter's DEFAULT
    recursion limit (the shards otherwise raise it): whatever the first answer was (a tree: long
    sums are built by a loop, not by recursion), the later answers and a fresh parser's answer must
    be of the same kind.  Only outcomes are compared here, the trees are far too deep to walk."""
    import sys
    from mathy_core.parser import ExpressionParser

    old = sys.getrecursionlimit()
    for terms, op in ((300, " + "), (480, " + "), (520, " - "), (700, " + "), (900, " + "), (600, " * ")):
        text = op.join(f"{(i % 9) + 1}{'xyz'[i % 3]}" for i in range(terms))
        p = ExpressionParser()
        outs = []
        sys.setrecursionlimit(1000)
        try:
            for who in (p, p, p, None, p):
                q = who if who is not None else ExpressionParser()
                if who is None:
                    p.clear_cache()
                    continue
                try:
                    q.parse(text)
                    outs.append("tree")
                except RecursionError:
                    outs.append("RecursionError")
                except Exception as e:
                    outs.append(type(e).__name__)
            try:
                ExpressionParser().parse(text)
                fresh = "tree"
            except RecursionError:
                fresh = "RecursionError"
            except Exception as e:
                fresh = type(e).__name__
        finally:
            sys.setrecursionlimit(old)
        rec.ev()
        rec.arm("history:deep-chain-repeated")
        if any(o != fresh for o in outs):
            rec.violation(prop, "history/outcome", "a used parser answers differently from a fresh parser",
                          {"text": text[:200], "deep_repeat": True, "summary": f"a chain of {terms} terms ('{text[:30]}...') parsed 3 times, cache cleared, parsed again, under the default "
                           f"recursion limit: outcomes {outs}, a fresh parser: {fresh}"})


def retry_with_more_stack(rec, prop="C12"):
    """a parse that ran out of stack (called from deep inside other code, or under a low recursion
    limit) is a failed parse like any other: asked again with enough stack -- the usual 'raise the limit
    and retry' -- the same parser must answer what a fresh parser answers."""
    import sys
    from mathy_core.parser import ExpressionParser
    from ..oracles import shadow as S

    texts = ["(" * 150 + "x" + ")" * 150, "x" * 400 + " + 2y", "sgn(" * 90 + "4 - y" + ")" * 90, "2 * (" * 120 + "x + 1" + ")" * 120 + " = 7",
             "3" + "(x + 1)" * 300, "-(" * 140 + "z" + ")" * 140 + "!", "(" * 130 + "4 +"]
    old = sys.getrecursionlimit()
    here = len(__import__("inspect").stack(0))
    plain = getattr(ExpressionParser.parse, "__vmon_original__", ExpressionParser.parse)
    for text in texts:
        p = ExpressionParser()
        for warm in ("4x + 2", "(x", "7 = y"):
            try:
                p.parse(warm)
            except Exception:
                pass
        first = []
        for room in (60, 110, 170):
            sys.setrecursionlimit(here + room)
            try:
                plain(p, text)      # the monitors would decide 'internal error' under a limit we lowered ourselves
                first.append("tree")
            except RecursionError:
                first.append("RecursionError")
            except Exception as e:
                first.append(type(e).__name__)
            finally:
                sys.setrecursionlimit(old)
        sys.setrecursionlimit(max(old, 20000))
        try:
            outs = []
            for q in (p, ExpressionParser()):
                try:
                    t = q.parse(text)
                    try:
                        outs.append(("tree", S.shadow(t)))
                    except RecursionError:
                        outs.append(("tree", None))
                except RecursionError:
                    outs.append(("RecursionError", None))
                except Exception as e:
                    outs.append((type(e).__name__, None))
        finally:
            sys.setrecursionlimit(old)
        rec.ev()
        if "RecursionError" in first:
            rec.arm("history:retry-with-more-stack")
        if outs[0] != outs[1]:
            rec.violation(prop, "history/outcome", "a used parser answers differently from a fresh parser",
                          {"text": text[:200], "retry_with_more_stack": True,
                           "summary": f"'{text[:24]}...' ({len(text)} characters) asked with little stack left (outcomes {first}), then with plenty: "
                           f"{outs[0][0]}, a fresh parser: {outs[1][0]}"})


def run(rec, cfg):
    from mathy_core.parser import ExpressionParser

    MP.attach_parser("C12", {"history"}, with_budget=False)
    MP.attach_parser_tokenize("C12")
    rng = cfg.rng("c12")
    from ..workloads import interrupted as _INT

    if cfg.shard == 6 % cfg.nshards:
        _INT.parser_cases(rec, "C12")
    corp = WT.corpus()
    W8.two_parsers(rec, rng, corp, "C12", cfg.scale(6, 200))
    if cfg.shard == 2 % cfg.nshards:
        W8.marathon(rec, rng, "C12")
    if cfg.shard == 3 % cfg.nshards:
        W8.typed(rec, rng, W8.TYPED_TEXTS)
    if cfg.shard == 1 % cfg.nshards:
        deep_repeat(rec)
    if cfg.shard == 4 % cfg.nshards:
        retry_with_more_stack(rec)
    # one parser per shard lives through every history of the shard (thousands of calls, hundreds
    # of failed parses of every kind); every other history runs on a parser of its own
    elder = ExpressionParser()
    elder._vmon_history = []
    for h in range(cfg.scale(200, 2500)):
        if cfg.out_of_time():
            rec.truncated = True
            break
        if h % 2:
            p = elder
            rec.arm("histories:on-the-long-lived-parser")
            if len(elder._vmon_history) > 6000:
                del elder._vmon_history[:-3000]   # the witness keeps the recent part only
        else:
            p = ExpressionParser()
            p._vmon_history = []
        pool = W8.text_pool(rng, corp, n_valid=rng.randint(2, 5), n_invalid=rng.randint(1, 4))
        if h % 3 == 0:
            # failures deep inside nested groups / function calls, and valid nested texts queried after them
            d = rng.choice([3, 10, 40, 90, 120])
            pool.append("(" * d + "x")
            pool.append("sgn(" * rng.choice([2, 7, 30, 80]) + "4y")
            pool.append("(" * d + "x + 1" + ")" * d)
            pool.append("(" * 5 + "x + )")
            pool.append("(2 + 3) * sgn((x))")
            rec.arm("histories:deep-failures-in-pool")
        st = W8.drive_history(p, rng, pool, rng.randint(50, cfg.scale(200, 500)))
        rec.arm("histories")
        for k, v in st.items():
            rec.arm("calls:" + k, v)
        if h % 25 == 0:
            rec.sample({"pool": [t[:50] for t in pool], "calls": st})


def replay(rec, cfg, w):
    if "failpoint" in w:
        from ..workloads import interrupted as _INT

        _INT.parser_cases(rec, "C12")      # deterministic: the whole family of cases is run again
        return
    if w.get("retry_with_more_stack"):
        retry_with_more_stack(rec)
        return
    if w.get("deep_repeat"):
        deep_repeat(rec)
        return
    if w.get("marathon") or any(isinstance(h, (list, tuple)) and len(h) > 1 and str(h[1]).endswith("w + 1") for h in (w.get("history") or [])[-50:]):
        from ..workloads import histories as _W9

        MP.attach_parser("C12", {"grammar", "closure", "history"})
        _W9.marathon(rec, cfg.rng("replay-marathon"), "C12")
        return
    if w.get("two_parsers"):
        from ..workloads import histories as _W8
        from ..workloads import text as _WT2

        MP.attach_parser("C12", {"grammar", "closure"})
        _W8.two_parsers(rec, cfg.rng("replay-two"), _WT2.corpus(), "C12", 40)
        return
    from mathy_core.parser import ExpressionParser

    MP.attach_parser("C12", {"history"}, with_budget=False)
    MP.attach_parser_tokenize("C12")
    p = ExpressionParser()
    p._vmon_history = []
    W8.replay_history(p, w.get("history", []))
    for f in (p.parse, p.tokenize):
        try:
            f(w["text"])
        except Exception:
            pass
