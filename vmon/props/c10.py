"""C10 -- parsing is total, has a closed error contract and keeps no sticky state."""
from .. import core
from ..monitors import parse as MP
from ..workloads import histories as W8
from ..workloads import text as WT

MANIFEST = dict(
    technique='runtime monitor on ExpressionParser.parse: exception-class closure, link audit, LINE-event step budget, fresh-parser comparison on histories with failures',
    text="Every parse() call on soups, truncations, mutations and nestings up to depth 25 must end in a well-formed tree or a documented exception within a logical step budget; on parsers with a recorded history every answer is compared with a fresh parser's. Held on the calls observed.",
    note='Trusts the link audit and the step budget as a stand-in for termination; nesting bound 25.',
    ref='DESIGN.md 3/C10',
)

RULE = (
    "W5 token soups, mutations/truncations of corpus and grammar-generated strings, nesting up to depth 25, plus W8 "
    "histories that interleave failing and succeeding parse calls on one parser.  The monitor on ExpressionParser.parse "
    "decides for every call: exception class in {ParserException subclasses, ValueError}, link/arity audit of a returned "
    "tree, a logical step budget of 2000*(len+10) LINE events inside parser.py/tokenizer.py (termination), and -- on "
    "parsers with a history -- equality of outcome/exception class/tree with a fresh parser.  distinct non-trivial = "
    "(recent history, text) of a call compared with a fresh parser after at least one failed parse, or a distinct text "
    "of length >= 2 whose outcome was decided."
)
ASSUMPTIONS = ["bounded nesting means <= 25 levels of parentheses/functions/unary minus", "step budget stands for termination",
               "injected interrupts (source-free failpoints) are reported as diagnostics only: the property speaks about failed parses"]
SHARDS = {"quick": 8, "thorough": 16}
DEADLINE = {"quick": 50, "thorough": 420}
REQUIRED = {
    "parse:outcome:ok": 500, "parse:outcome:parser-exception": 500, "parse:outcome:value-error": 50,
    "parse:exc:InvalidSyntax": 50, "parse:exc:TrailingTokens": 20, "parse:exc:UnexpectedBehavior": 10,
    "parse:exc:InvalidExpression": 1, "history:after-failure": 200, "history:compared": 500, "texts:literal-magnitudes": 500,
}


def run(rec, cfg):
    from mathy_core.parser import ExpressionParser

    MP.attach_parser("C10", {"closure", "history"})
    rng = cfg.rng("c10")
    from ..workloads import interrupted as _INT

    if cfg.shard == 6 % cfg.nshards:
        _INT.parser_cases(rec, "C10")      # a failed parse of the most abrupt kind: interrupted at an arbitrary line
    corp = WT.corpus()
    from ..workloads import histories as W8b

    W8b.two_parsers(rec, rng, corp, "C10", cfg.scale(6, 200))
    if cfg.shard == 2 % cfg.nshards:
        W8b.marathon(rec, rng, "C10")
    if cfg.shard == 3 % cfg.nshards:
        W8b.typed(rec, rng, W8b.TYPED_TEXTS)
    if cfg.shard == 4 % cfg.nshards:
        W8b.deep_under_default_limit(rec, "C10")
    if cfg.shard == 5 % cfg.nshards:
        from . import c12 as _c12

        _c12.deep_repeat(rec, prop="C10")   # the same very long flat text asked repeatedly of one parser, default recursion limit
        _c12.retry_with_more_stack(rec, prop="C10")   # a parse that ran out of stack, asked again with plenty
    seen = set()

    def one(s, parser=None):
        if len(s) > 1500:
            return
        p = parser or ExpressionParser()
        try:
            p.parse(s)
        except Exception:
            pass
        if len(s) >= 2 and s not in seen:
            seen.add(s)
            rec.nontrivial(("text", s))

    fixed = ["", " ", "\n", "()", "(", ")", "x)", "(x", "4 +", "+ 4", "4 + + 4", "4 4", "4 x 4", "x!", "4!!", "4!x", "sgn", "sgn(", "sgn()", "sgn x",
             "sgn(x", "2^", "^2", "2^^2", "2^3^2", "=", "x =", "= x", "x = = y", "--4", "-", "- -4", "4 - - 4", "1.2.3", ".", "..", "1..2", "4 # 2", "x'",
             "!", "!4", "(!)", "()()", "(())", "x()", "4()", "[)", "(]", "4(", "4)", "*", "4 *", "* 4", "4 * / 2", "/", "a / / b", "x^-", "x^-!", "-!", "4 - !"]
    if cfg.shard == 0:
        for s in fixed:
            one(s)
        for d in range(1, 26):
            for k in ("paren", "neg", "sgn", "pow"):
                one(WT.nested(rng, d, k))
                one(WT.nested(rng, d, k)[: -max(1, d // 2)])
    if cfg.shard == 1 % cfg.nshards:
        # literals around the magnitudes where number conversions change behaviour: 2^53, 2^63, 2^64,
        # the largest double (309 digits), far beyond it -- alone, signed, as coefficient, exponent
        # base, function argument, with a fraction part, with leading zeros
        for nd in (15, 16, 17, 19, 20, 21, 39, 60, 100, 200, 307, 308, 309, 310, 320, 400, 700, 1000, 1400):
            for lead in ("9", "1", "17", "0009"):
                lit = (lead + "".join(rng.choice("0123456789") for _ in range(nd)))[:nd]
                for form in ("{n}", "-{n}", "{n}x", "2x + {n}", "{n} = x", "({n})^2", "sgn({n})", "abs(-{n})", "{n}.5", "0.{n}", "{n}.", "x / {n}", "{n}y^2 - {n}"):
                    one(form.format(n=lit))
                    rec.arm("texts:literal-magnitudes")
    n = cfg.scale(12000, 150000)
    for i in range(n):
        if cfg.out_of_time():
            rec.truncated = True
            break
        c = rng.random()
        if c < 0.35:
            s = WT.soup(rng, foreign=0.02)
        elif c < 0.65:
            s = WT.mutate(rng, rng.choice(corp) if rng.random() < 0.4 else WT.gen_text(rng, max_depth=3), foreign=0.05)
        elif c < 0.75:
            s = WT.gen_text(rng, max_depth=3)
            s = s[: rng.randrange(len(s) + 1)]
        elif c < 0.85:
            s = WT.gen_text(rng)
        elif c < 0.90:
            s = WT.mutate(rng, WT.nested(rng, rng.randint(1, 25)))
        else:
            s = WT.soup(rng, rng.randint(10, 40), foreign=0.0)
        one(s)
        if rng.random() < 0.002:
            rec.sample({"text": s[:100]})
    # histories with failures interleaved (sticky state)
    elder = ExpressionParser()
    elder._vmon_history = []
    for h in range(cfg.scale(80, 800)):
        if cfg.out_of_time():
            rec.truncated = True
            break
        if h % 2 and elder is not None:
            p = elder
            rec.arm("histories:on-the-long-lived-parser")
            if len(elder._vmon_history) > 6000:
                del elder._vmon_history[:-3000]
        else:
            p = ExpressionParser()
            p._vmon_history = []
        pool = W8.text_pool(rng, corp, n_valid=3, n_invalid=4)
        if h % 3 == 0:
            # failures deep inside nested groups (whatever a failed parse leaves behind adds up over
            # the life of the parser), and valid grouped texts asked after them
            d = rng.choice([3, 10, 40, 90, 120])
            pool += ["(" * d + "x", "sgn(" * rng.choice([2, 7, 30, 80]) + "4y", "(4 + (x", "2 * sgn((x +", "(" * 5 + "x + )", "(1 + 2) * 3", "(2 + 3) * sgn((x))"]
            rec.arm("histories:deep-failures-in-pool")
        st = W8.drive_history(p, rng, pool, rng.randint(20, 120), edit_lists=False)
        rec.arm("histories")
        if h % 40 == 0:
            rec.sample({"history_pool": [t[:60] for t in pool], "calls": st})
    rec.notes["budget_high_water_lines"] = MP.budget().high_water
    if cfg.thorough:
        failpoints(rec, cfg, rng, corp)


def failpoints(rec, cfg, rng, corp):
    """Diagnostic only: raise from a random line inside _parse (source-free failpoint), then
    parse ordinary strings on the same object and compare with a fresh parser."""
    import sys
    from mathy_core.parser import ExpressionParser

    if not hasattr(sys, "monitoring"):
        return

    class Abort(BaseException):
        pass

    b = MP.budget()
    div = 0
    runs = 0
    for i in range(300):
        p = ExpressionParser()
        t = rng.choice(corp)
        b.start(rng.randint(5, 400))  # tiny budget == abort at a random line
        try:
            contracts_raw(p, t)
        except BaseException:
            pass
        b.stop()
        runs += 1
        for q in (t, rng.choice(corp), "4 +"):
            a = outcome(p, q)
            f = outcome(ExpressionParser(), q)
            if a != f:
                div += 1
    rec.notes["post_abort_divergences_diagnostic"] = {"aborted_parses": runs, "divergences": div}


def contracts_raw(p, t):
    f = type(p).parse
    f = getattr(f, "__vmon_original__", f)
    return f(p, t)


def outcome(p, q):
    from ..oracles import shadow as S

    try:
        return ("ok", S.shadow(contracts_raw(p, q)))
    except Exception as e:
        return (type(e).__name__,)


def replay(rec, cfg, w):
    if "failpoint" in w:
        from ..workloads import interrupted as _INT

        _INT.parser_cases(rec, "C10")      # deterministic: the whole family of cases is run again
        return
    if w.get("marathon") or any(isinstance(h, (list, tuple)) and len(h) > 1 and str(h[1]).endswith("w + 1") for h in (w.get("history") or [])[-50:]):
        from ..workloads import histories as _W9

        MP.attach_parser("C10", {"grammar", "closure", "history"})
        _W9.marathon(rec, cfg.rng("replay-marathon"), "C10")
        return
    if w.get("retry_with_more_stack"):
        from . import c12 as _c12

        _c12.retry_with_more_stack(rec, prop="C10")
        return
    if w.get("deep_repeat"):
        from . import c12 as _c12

        _c12.deep_repeat(rec, prop="C10")
        return
    if w.get("two_parsers"):
        from ..workloads import histories as _W8
        from ..workloads import text as _WT2

        MP.attach_parser("C10", {"grammar", "closure"})
        _W8.two_parsers(rec, cfg.rng("replay-two"), _WT2.corpus(), "C10", 40)
        return
    from mathy_core.parser import ExpressionParser

    MP.attach_parser("C10", {"closure", "history"})
    p = ExpressionParser()
    p._vmon_history = []
    W8.replay_history(p, w.get("history", []))
    try:
        p.parse(w["text"])
    except Exception:
        pass
