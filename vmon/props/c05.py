"""C05 -- evaluation computes the mathematically correct number."""
import random
from fractions import Fraction

from .. import core
from ..monitors import evalmon as ME
from ..monitors import rules as MR
from ..oracles import shadow as S
from ..workloads import drive as D
from ..workloads import exprs as WE
from ..workloads import text as WT

MANIFEST = dict(
    technique="runtime monitor on evaluate() (outermost call) vs an independent exact rational evaluator with condition-number scale; operand-class workload incl. magnitudes beyond 2^63, missing variables, zero divisors, true/false equations, rule-produced trees",
    text="Every outermost evaluate() call the workloads make is compared with the exact value: integer-only expressions (+ - * ^nonneg ! sgn abs) must return the exact integer of any magnitude (a numerically different, i.e. wrapped, result or an OverflowError is a violation); otherwise |result - exact| <= 1e-12*scale; a missing/None variable must raise ValueError; a zero divisor under NaN-transparent operators must give NaN; an equation must return its common value or raise ValueError. Held on the evaluations observed.",
    note="Trusts fractions.Fraction and the scale model (1e-12*scale is far above n*2^-53 and far below any real error). Fractional powers of negatives, factorial of non-integers, 0^negative and magnitudes above 1e150 are outside the statement and skipped.",
    ref="DESIGN.md 3/C05",
)
RULE = (
    "Parsed W3/corpus trees and constructor-built trees (numpy-typed constants, abs) x contexts drawn from operand classes "
    "{0, +-1, small, 2^31, 2^63+-1, 10^30, decimals, negative}; exponents 0..70, factorial 0..30; missing/None variables; "
    "equations true and false; trees produced by one or two rule applications.  distinct non-trivial = (tree, regime) with >= 1 "
    "operator whose result was compared with a defined exact value (or whose error contract was decided)."
)
ASSUMPTIONS = ["integer regime = all constants and context values are Python ints and no division occurs", "float tolerance 1e-12*scale (1e-9*scale when the oracle itself had to approximate a non-integer power)"]
SHARDS = {"quick": 8, "thorough": 16}
DEADLINE = {"quick": 50, "thorough": 420}
REQUIRED = {"eval:int:expression": 500, "eval:float:expression": 500, "eval:missing-variable": 50, "eval:division-by-zero": 20,
            "eval:equation:true": 20, "eval:equation:false": 20, "evalop:int:Power": 100, "evalop:int:Factorial": 20, "evalop:float:Divide": 100,
            "evalop:int:Sgn": 10, "evalop:float:Power": 50, "eval:int:bigresult": 20, "eval:same-dict-updated-in-place": 500, "eval:context-dict-subclass": 200, "eval:after-in-place-rewrite": 200, "eval:unary-operand-relinked-by-hand": 20}

INT_VALUES = [0, 1, -1, 2, 3, -2, 5, 7, 10, -7, 12, True, False, 2 ** 31, 2 ** 32, 2 ** 63 - 1, 2 ** 63, -(2 ** 63) - 1, 10 ** 30, 2 ** 64 + 1, 99991, -65537, 46341, 3037000500]
FLOAT_VALUES = [0.5, 2.5, -0.25, 1.5, 0.1, 3.14, 100.125, 1e-3, 12.75, -7.5, 1e6, 2.0, 0.0, 1e10, -0.0, 5e-324, 1.7976931348623157e308]


def int_text(rng, depth=0, big=True):
    """integer-only expression text (no division, no decimals).  At most one large
    exponent on any root-to-leaf path, so that magnitudes stay below ~10^5000."""
    c = rng.random()
    if depth > 3 or c < 0.3:
        return rng.choice(["x", "y", "z", str(rng.randint(0, 12)), str(rng.randint(2, 99)), str(rng.choice([2 ** 31, 2 ** 63, 10 ** 18 + 9, 65537]))])
    if c < 0.5:
        return f"({int_text(rng, depth + 1, big)} {rng.choice('+-*')} {int_text(rng, depth + 1, big)})"
    if c < 0.7:
        if big:
            e = rng.choice([0, 1, 2, 2, 3, 4, 5, 7, 16, 31, 40, 63, 64, 70])
            return f"({int_text(rng, depth + 1, big=e <= 3)})^{e}"
        return f"({int_text(rng, depth + 1, False)})^{rng.choice([0, 1, 2, 2, 3])}"
    if c < 0.78:
        return f"{rng.randint(0, 30 if big else 12)}!"
    if c < 0.84:
        return f"sgn({int_text(rng, depth + 1, big)})"
    if c < 0.9:
        return f"-({int_text(rng, depth + 1, big)})"
    if c < 0.95:
        return f"{rng.randint(2, 12)}{rng.choice('xyz')}^{rng.choice([2, 3, 10, 20, 33]) if big else 2}"
    return f"{int_text(rng, depth + 1, big)} * {int_text(rng, depth + 1, big)}"


def context_for(rng, names, mode):
    ctx = {}
    for x in names:
        if mode == "int":
            ctx[x] = rng.choice(INT_VALUES)
        elif mode == "small-int":
            ctx[x] = rng.randint(-9, 9)
        elif mode == "float":
            ctx[x] = rng.choice(FLOAT_VALUES)
        else:
            ctx[x] = rng.choice(INT_VALUES + FLOAT_VALUES)
    return ctx


REMEMBERED = []


def remember(root, ctx, result):
    """(tree, context, what came out): asked again later in the same process, the same must come out"""
    if len(REMEMBERED) < 400 and not isinstance(result, Exception):
        try:
            frozen = root.clone()   # the workloads go on rewriting some of these trees in place: keep a copy
        except Exception:
            return
        REMEMBERED.append((frozen, dict(ctx) if isinstance(ctx, dict) else ctx, ME._r(result), type(result).__name__))


def ask_again(rec):
    for root, ctx, was, was_type in REMEMBERED:
        try:
            now = root.evaluate(dict(ctx) if isinstance(ctx, dict) else ctx)
        except Exception as e:
            now = e
        rec.ev()
        rec.arm("eval:asked-again-later")
        if isinstance(now, Exception) or ME._r(now) != was or type(now).__name__ != was_type:
            rec.violation("C05", "eval/history-dependent", "the same tree and context evaluate differently later in the same process",
                          {"tree": S.to_json(S.shadow(root)), "text": S.text_of(root), "context": {k: ME._r(v) for k, v in (ctx or {}).items()} if isinstance(ctx, dict) else repr(ctx),
                           "summary": f"evaluate('{S.text_of(root)}', {ctx}) gave {was[:60]} ({was_type}) the first time and "
                                      f"{(type(now).__name__ + ': ' + str(now)[:40]) if isinstance(now, Exception) else ME._r(now)[:60] + ' (' + type(now).__name__ + ')'} later"})
    del REMEMBERED[:]


def evaluate(rec, root, ctx):
    from ..oracles import exact as X

    sig = {k: v for k, v in (ctx or {}).items() if isinstance(v, (int, float)) and v == v and abs(v) != float("inf")}
    if X.magnitude_bits(S.shadow(root), sig) is None:
        rec.skip("workload: tree/context pair not driven (exact integer powers beyond ~60000 bits)")
        return None
    try:
        v = root.evaluate(ctx)
        if isinstance(v, int) and abs(v) > 2 ** 64:
            rec.arm("eval:int:bigresult")
        if len(REMEMBERED) < 400 and (len(REMEMBERED) < 60 or id(root) % 7 == 0):
            remember(root, ctx, v)
        return v
    except Exception as e:
        return e


def constructed(rng):
    from mathy_core import expressions as E
    import numpy as np

    C, V = E.ConstantExpression, E.VariableExpression
    yield E.AbsExpression(E.SubtractExpression(V("x"), C(5)))
    yield E.PowerExpression(E.AbsExpression(C(-5)), C(100))
    yield E.MultiplyExpression(E.AbsExpression(E.SubtractExpression(V("x"), V("y"))), E.PowerExpression(C(2), C(62)))
    yield E.PowerExpression(E.AbsExpression(V("x")), C(3))
    yield E.AddExpression(E.AbsExpression(C(-7)), E.FactorialExpression(C(25)))
    yield E.AddExpression(C(np.float64(2.5)), E.MultiplyExpression(C(np.float64(0.5)), V("x")))
    yield E.PowerExpression(C(np.float64(2.0)), V("x"))
    yield E.NegateExpression(E.NegateExpression(V("x")))
    yield E.FactorialExpression(C(5), child_on_left=True)
    yield E.SgnExpression(E.SubtractExpression(V("x"), V("y")))
    yield E.DivideExpression(E.DivideExpression(V("x"), C(4)), E.DivideExpression(C(2), V("y")))
    yield E.EqualExpression(E.MultiplyExpression(C(2), V("x")), E.AddExpression(V("x"), V("x")))
    yield E.DivideExpression(V("x"), E.SubtractExpression(V("y"), V("y")))
    yield E.AddExpression(C(1), E.DivideExpression(C(1), C(0)))
    yield E.MultiplyExpression(E.PowerExpression(C(2), C(62)), C(4))
    yield E.PowerExpression(C(3), C(40))
    yield E.PowerExpression(V("x"), C(2))
    yield E.PowerExpression(C(2), C(-3))
    yield E.PowerExpression(C(10), C(400))
    # every operator over a variable, under every operator: the parser only puts '!' after a literal and
    # 'sgn' around a group, the node classes take any operand
    unary = [E.NegateExpression, E.FactorialExpression, E.AbsExpression, E.SgnExpression]
    binary = [E.AddExpression, E.SubtractExpression, E.MultiplyExpression, E.DivideExpression, E.PowerExpression]
    for U in unary:
        yield U(V("x"))
        for U2 in unary:
            yield U(U2(V("x")))
        for B in binary:
            yield U(B(V("x"), C(2)))
            yield U(B(C(3), V("y")))
            yield B(U(V("x")), C(2))
            yield B(C(3), U(V("y")))
            yield B(U(V("x")), U(V("y")))
    yield E.MultiplyExpression(C(2), E.FactorialExpression(E.AddExpression(V("n"), C(1))))
    yield E.FactorialExpression(E.FactorialExpression(C(3)))
    yield E.SubtractExpression(E.FactorialExpression(E.MultiplyExpression(C(2), V("x"))), E.FactorialExpression(V("y")))


def colossal_powers(rec):
    """exact integer powers of millions of bits (powers of two are cheap to produce and to check):
    'of any magnitude' has no threshold"""
    from mathy_core import expressions as E

    f = getattr(E.BinaryExpression.evaluate, "__vmon_original__", E.BinaryExpression.evaluate)
    for n in (2 ** 20 + 1, 2 ** 22 + 3, 2 ** 23 + 1, 2 ** 24 + 1, 20000000, 2 ** 25 + 1):
        for text, ctx, want in ((f"2^{n}", {}, 1 << n), ("(x^y + 7) - x^y", {"x": 2, "y": n}, 7), (f"4^{n // 2} - 2^{n - (n % 2)}", {}, 0)):
            try:
                root = D.parse(text)
                got = f(root, dict(ctx))
            except Exception as e:
                got = e
            rec.ev()
            rec.arm("eval:int:colossal-power")
            if not (isinstance(got, int) and not isinstance(got, bool) and got == want):
                shown = f"raised {type(got).__name__}" if isinstance(got, Exception) else (f"{type(got).__name__} of {got.bit_length()} bits" if isinstance(got, int) else ME._r(got)[:40])
                rec.violation("C05", "eval/int/wrong-value", "integer arithmetic did not return the exact result",
                              {"text": text, "context": {k: repr(v) for k, v in ctx.items()}, "colossal": True,
                               "summary": f"evaluate('{text}', {ctx}) returned {shown}; the exact result is an integer of {want.bit_length()} bits"})


def run(rec, cfg):
    rec.accept = {"eval", "eval-missing", "eval-eq-false", "eval-div0"}
    ME.attach_evaluate("C05")
    from ..oracles import exact as X

    X.MAX_BITS, X.MAX_EXP, X.MAX_FACT = 70000, 70000, 3000   # exact integers of up to ~20000 digits in this check
    rng = cfg.rng("c05")
    from ..workloads import interrupted as _INT

    if cfg.shard == 6 % cfg.nshards:
        _INT.evaluate_cases(rec, "C05")
    rules = MR.rule_instances()
    corp = [s for s in WT.corpus()]
    n = cfg.scale(6000, 150000)
    if cfg.shard == 0:
        for t in constructed(rng):
            for mode in ("int", "small-int", "float", "mixed"):
                for _ in range(6):
                    evaluate(rec, t, context_for(rng, ["x", "y"], mode))
            for small in ({"x": 3, "y": 2, "n": 4}, {"x": 0, "y": 5, "n": 0}, {"x": 6, "y": 1, "n": 2}, {"x": -2, "y": 3, "n": 1}, {"x": 2.5, "y": 4, "n": 3}):
                evaluate(rec, t, small)
            evaluate(rec, t, {})
            evaluate(rec, t, None)
            evaluate(rec, t, {"x": None, "y": 1})
            evaluate(rec, t, {"y": 2})
            evaluate(rec, t, {"x": 3, "n": None})
    from . import _rulecommon as RC

    if cfg.shard == 2 % cfg.nshards:
        colossal_powers(rec)
    if cfg.shard == 1 % cfg.nshards:
        for t in RC.long_texts():
            try:
                root = D.parse(t)
            except Exception:
                continue
            names = sorted(S.variables(S.shadow(root)))
            for mode in ("small-int", "int", "float"):
                evaluate(rec, root, context_for(rng, names, mode))
            rec.arm("eval:long-expression")
    fixed = ["(4 + 4) * x^2", "(6 + 9) * 1000000000000000000000", "(12 + 18) * y^3 + 1", "(4 + 6) * x * y", "x^2 * (8 + 12)", "2^64", "3^40", "x^2",
             "2^62 * 4", "2^-3", "x^y", "10^30 * 10^30 + 1", "20! * 20!", "(x + 1)^64", "sgn(x - y) * 2^70",
             # exact integers of several thousand digits (beyond the interpreter's int->str digit limit), alone and
             # as the common value of TRUE equations, and as the two values of false ones
             "2000! = 2000 * 1999!", "2^15000 = 4^7500", "10^4300 = 10 * 10^4299", "10^4299 = 10 * 10^4298", "2^15000", "1500! - 1500 * 1499!",
             "2^15000 = 4^7500 + 1", "(x + 1)^6000 = (x + 1)^3000 * (x + 1)^3000", "x^5000 * x = x^5001", "3^9100 - 3^9100 + x", "1600! = 1600!",
             # a zero sign (and other exact-zero sub-results) feeding powers / products beyond 64 bits
             "(sgn(x - x) + 3)^50", "sgn(y - y) * 2^70 + 2^70", "(sgn(0) + 2)^64 * 3", "(0 * x + 3)^41", "(x - x + 7)^30 * 10^20", "sgn(2 - 2) + 2^64",
             # the same large power with float and with int operands, in both orders
             "7.0^900", "7^900", "7.0^900 - 7.0^900", "7^900 - 7^900", "0.5 * 7.0^900", "3.0^2000", "3^2000", "3.0^2000 + 1",
             # divisors that are exactly zero but reach the division as numpy floats (through a power)
             "1 / 0.0^2", "3 / 0^0.5", "5 / (2^-1 - 0.5)", "-4 / (y^0.5 - y^0.5)", "x / 0^1.5", "7 / (0.5^2 - 0.25)", "2 / (4^-1 - 0.25) + 1",
             # quotients far beyond the floats (dividend an exact integer above 1e308)
             "10^400 / 2.5", "10^400 / 3", "2.5 / 10^400", "x / 2.5 + 10^400 / 4", "(10^200 * 10^200) / 0.5", "7^500 / 1.5 - 1",
             # a division by zero (NaN) on one side of an equation
             "3 = x / (y - y)", "x / (y - y) = 3", "7 + z = 12 / (z - z)", "1 / 0 = 1 / 0", "x = 4 / 0", "(x + 1) / (x - x) = y"]
    for i in range(n):
        if cfg.out_of_time():
            rec.truncated = True
            break
        c = rng.random()
        if i < len(fixed) * 3:
            text = fixed[i % len(fixed)]
        elif c < 0.35:
            text = int_text(rng)
        elif c < 0.6:
            text = WT.gen_text(rng, max_depth=3, vars_=["x", "y", "z"][: rng.randint(1, 3)])
        elif c < 0.75:
            text = WE.random_expr(rng)
        elif c < 0.85:
            text = rng.choice(corp)
        elif c < 0.93:
            text, _ = WE.equation(rng)
        else:
            a = int_text(rng)
            text = f"{a} = {a}" if rng.random() < 0.5 else f"{a} = {int_text(rng)}"
        try:
            root = D.parse(text)
        except Exception:
            continue
        sh = S.shadow(root)
        if S.size(sh) > 120:
            continue
        names = sorted(S.variables(sh))
        trees = [root]
        if (rng.random() < 0.25 or i < len(fixed) * 3) and not D.too_big(sh):
            # trees produced by rules (numpy-typed constants come from here)
            for label, idx, new_root in D.apply_everywhere(rec, root, rules, rng, cap=1):
                if new_root is not None and not D.too_big(S.shadow(new_root)):
                    trees.append(new_root)
                    if label in ("DF:c", "DF", "CA") and rng.random() < 0.5:
                        # a second step on a factored/folded tree (numpy-typed constants get combined)
                        for l2, i2, r2 in D.apply_everywhere(rec, new_root, rules[3:4], rng, cap=2):
                            if r2 is not None and not D.too_big(S.shadow(r2)):
                                trees.append(r2)
            if len(trees) > 6:
                trees = trees[:1] + rng.sample(trees[1:], 5)
        if rng.random() < 0.3 and not D.too_big(sh) and D._small(root, 40):
            # rules are in-place operations: the tree object is evaluated, rewritten in place (its
            # nodes re-linked through set_left / set_right / rotate), and evaluated again
            ctx0 = context_for(rng, names, rng.choice(["int", "small-int", "float"]))
            evaluate(rec, root, dict(ctx0))

            def again(cur, done):
                evaluate(rec, cur, dict(ctx0))
                rec.arm("eval:after-in-place-rewrite")
                return True

            try:
                D.inplace_chain(rec, root, rules, rng, steps=rng.randint(1, 4), on_step=again)
            except Exception:
                pass
        if rng.random() < 0.1:
            # an operand re-linked by hand: the operand of a one-operand node replaced with set_left /
            # set_right (the generic tree API), then evaluated
            from mathy_core import expressions as _E

            cp = root.clone()
            un = [x for x in S.nodes_preorder(cp) if isinstance(x, _E.UnaryExpression) and x.get_child() is not None]
            if un:
                u = rng.choice(un)
                new_operand = _E.ConstantExpression(rng.choice([2, 3, 2 ** 70, 0.5]))
                (u.set_left if u.left is not None else u.set_right)(new_operand)
                rec.arm("eval:unary-operand-relinked-by-hand")
                for mode in ("int", "float"):
                    evaluate(rec, cp, context_for(rng, names, mode))
        for t in trees:
            for mode in rng.sample(["int", "small-int", "float", "mixed", "small-int"], 3):
                ctx = context_for(rng, names, mode)
                v = evaluate(rec, t, ctx)
            if names and rng.random() < 0.3:
                # the caller keeps ONE dict and updates it in place between evaluations of the same
                # tree (a loop over x values, a variable removed again): every call is decided
                # against the dict's contents at that call
                shared = context_for(rng, names, "small-int")
                evaluate(rec, t, shared)
                for _ in range(3):
                    shared[rng.choice(names)] = rng.choice(INT_VALUES[:12] + FLOAT_VALUES[:4])
                    evaluate(rec, t, shared)
                    rec.arm("eval:same-dict-updated-in-place")
                gone = rng.choice(names)
                del shared[gone]
                evaluate(rec, t, shared)
                shared[gone] = 3
                evaluate(rec, t, shared)
            if names and rng.random() < 0.15:
                # contexts that are dict subclasses answering missing keys by themselves (a Counter
                # of values, a defaultdict): a variable without a value is still an error
                import collections

                base = context_for(rng, names, "small-int")
                gone = rng.choice(names)
                base.pop(gone)
                for mk in (lambda d: collections.Counter(d), lambda d: collections.defaultdict(int, d), lambda d: collections.defaultdict(float, d),
                           lambda d: collections.OrderedDict(d)):
                    try:
                        evaluate(rec, t, mk({k: v for k, v in base.items() if isinstance(v, int)}))
                        rec.arm("eval:context-dict-subclass")
                    except Exception:
                        pass
            if names and rng.random() < 0.15:
                ctx = context_for(rng, names, "small-int")
                drop = rng.choice(names)
                if rng.random() < 0.5:
                    ctx.pop(drop)
                else:
                    ctx[drop] = None
                evaluate(rec, t, ctx if rng.random() < 0.8 else None)
        if i % 500 == 499 or i == len(fixed) * 3:
            ask_again(rec)
        if rng.random() < 0.004:
            rec.sample({"text": text[:100], "context": {k: repr(v) for k, v in context_for(rng, names, "mixed").items()}})
    ask_again(rec)


def replay(rec, cfg, w):
    if "failpoint" in w:
        from ..workloads import interrupted as _INT

        _INT.evaluate_cases(rec, "C05")      # deterministic: the whole family of cases is run again
        return
    ME.attach_evaluate("C05")
    from ..oracles import exact as X

    X.MAX_BITS, X.MAX_EXP, X.MAX_FACT = 70000, 70000, 3000
    root = S.build(S.from_json(w["tree"]))
    ctx = {}
    if isinstance(w.get("context"), dict):
        import numpy as np  # noqa (reprs may mention np.*)

        for k, v in w["context"].items():
            try:
                ctx[k] = eval(v, {"np": np, "nan": float("nan"), "inf": float("inf")})
            except Exception:
                ctx[k] = None
    ct = w.get("context_type", "")
    if ct:
        import collections

        ctx = {"Counter": collections.Counter, "OrderedDict": collections.OrderedDict}.get(ct.split(":")[0], lambda d: collections.defaultdict(float if ct.endswith("float") else int, d))(ctx)
    try:
        root.evaluate(ctx)
    except Exception:
        pass
