"""C17 -- generated problems are always valid and contain what they promise."""
import random

from .. import contracts, core
from ..oracles import refgrammar as G
from ..oracles import shadow as S

MANIFEST = dict(
    technique="runtime contracts on every problem generator and helper (entry: RNG seed, parameters, number mode; exit: no exception, text accepted by a fresh parser, positive integer complexity, promised like-term pair present by an independent definition, distinctness/exclusion of variable sets, split sums); seed x parameter-grid x number-mode workload, a sequential seed sweep of plain calls, and an injected random source answering legal but unlikely draws",
    text="Every generator call over thousands of seeds, parameter grids inside the documented ranges and both number modes is decided at exit of the real function; 'has like terms' is decided by an independent reading of the parsed text (two addends with the same variable multiset and exponent), and helper laws (distinct variables, exclusions respected, split sums) by their definitions. Held on the calls observed; the known default-argument failure of gen_combine_terms_in_place is recorded as a finding.",
    note="'Documented ranges' = default calls, the calls made by the repository's tests/docs and grids around them (DESIGN.md 3/C17). Trusts the repository's parser as acceptance oracle (its grammar conformance is C03).",
    ref="DESIGN.md 3/C17",
)
RULE = (
    "W2: every gen_* with seeds x parameter grids (term counts 2..12, combine up to 22, blockers 1..10, max_vars within the template's "
    "slots, probabilities in [0,1], op in None/+/-/*/lists) x use_pretty_numbers(True/False); helpers get_rand_vars, "
    "get_rand_term_templates, split_in_two_random, rand_number.  distinct non-trivial = (generator, parameters, seed, mode) "
    "whose output was parsed and checked.  Every monitored call is made under the ordinary seeded source and again under "
    "an injected source (12% of the draws answered with an end of the requested range, its neighbour, -1/0/1/2, 0.0 or the largest float below 1); "
    "a sequential sweep of 130 000 seeds per case (2.5M thorough) of plain calls decides 'returns (text, positive int) without raising'."
)
ASSUMPTIONS = ["like-term promise is checked by an independent definition: two top-level addends (through + and -, and inside the grouping parentheses) "
               "with equal variable multiset and equal exponent", "requests to get_rand_vars that exceed the pool after exclusions are expected to raise ValueError"]
SHARDS = {"quick": 8, "thorough": 16}
DEADLINE = {"quick": 60, "thorough": 420}
GENS = ["gen_binomial_times_binomial", "gen_binomial_times_monomial", "gen_simplify_multiple_terms", "gen_combine_terms_in_place", "gen_commute_haystack",
        "gen_move_around_blockers_one", "gen_move_around_blockers_two"]
PROMISE_LIKE = {"gen_combine_terms_in_place", "gen_commute_haystack", "gen_move_around_blockers_one", "gen_move_around_blockers_two"}


def REQUIRED(tier):
    req = {}
    req["gen:plain-bulk-calls"] = 10000
    req["gen:unlikely-draws-injected"] = 10000
    for g in GENS:
        for mode in ("pretty", "full"):
            req[f"gen:{g}:{mode}"] = 100
    req.update({"helper:get_rand_vars": 300, "helper:get_rand_vars:expected-ValueError": 10, "helper:split_in_two_random": 300,
                "helper:get_rand_term_templates": 100, "helper:get_rand_term_templates:subclass-exclusions": 100, "helper:rand_number:full": 300, "like-promise:checked": 400, "like-promise:simplify-multiple-terms": 100})
    return req


# ------------------------------------------------------------------ independent like-term definition

def addends(ast, out):
    """top-level addends through + and - (and through parentheses, which the AST drops)"""
    if ast[0] in ("Add", "Subtract"):
        addends(ast[2], out)
        addends(ast[3], out)
    else:
        out.append(ast)
    return out


def term_key(ast):
    """(sorted variable multiset, exponent) of a monomial addend, or None"""
    vars_ = []
    exps = []

    def rec(a):
        k = a[0]
        if k == "Constant":
            return True
        if k == "Variable":
            vars_.append(a[1])
            return True
        if k == "Multiply":
            return rec(a[2]) and rec(a[3])
        if k == "Negate":
            return rec(a[3])
        if k == "Power" and a[2][0] == "Variable" and a[3][0] == "Constant":
            vars_.append(a[2][1])
            exps.append(a[3][1][1])
            return True
        return False

    if not rec(ast) or not vars_ or len(exps) > 1:
        return None
    return (tuple(sorted(vars_)), exps[0] if exps else None)


def independent_has_like_terms(text):
    ast, _ = G.ref_parse(text)
    seen = set()
    for a in addends(ast, []):
        k = term_key(a)
        if k is None:
            continue
        if k in seen:
            return True
        seen.add(k)
    return False


# ------------------------------------------------------------------ contracts

STATE = {"seed": None, "mode": None}


def attach_generators():
    import mathy_core.problems as P
    from mathy_core.parser import ExpressionParser

    def make(name):
        def post(snap, a, k, res, exc):
            rec = core.REC
            rec.ev()
            mode = "pretty" if P._pretty_numbers else "full"
            rec.arm(f"gen:{name}:{mode}")
            w = {"generator": name, "args": list(a), "kwargs": dict(k), "seed": STATE["seed"], "pretty": bool(P._pretty_numbers), "hostile": bool(STATE.get("hostile"))}

            def bad(key, what, got):
                w2 = dict(w)
                w2["got"] = got
                w2["summary"] = f"{name}(*{list(a)}, **{dict(k)}) seed={STATE['seed']} pretty={P._pretty_numbers}: {got}"
                rec.violation("C17", key, what, w2)

            if exc is not None:
                bad(classify_raise(name, a, k, exc), "a problem generator raised", f"raised {type(exc).__name__}: {str(exc)[:100]}")
                return
            if not (isinstance(res, tuple) and len(res) == 2 and isinstance(res[0], str)):
                bad(f"gen/{name}/result-type", "a problem generator did not return (text, complexity)", repr(res)[:100])
                return
            text, complexity = res
            if isinstance(complexity, bool) or not isinstance(complexity, int) or complexity <= 0:
                bad(f"gen/{name}/complexity", "complexity is not a positive integer", f"complexity={complexity!r} for '{text}'")
                return
            try:
                f = ExpressionParser.parse
                f = getattr(f, "__vmon_original__", f)
                f(ExpressionParser(), text)
            except Exception as e:
                bad(f"gen/{name}/unparseable", "generated text is rejected by the parser", f"'{text}' -> {type(e).__name__}: {str(e)[:60]}")
                return
            promised = name in PROMISE_LIKE
            if name == "gen_simplify_multiple_terms":
                # "a polynomial problem with like terms that need to be combined": decidable with our
                # sum-based definition when every operator is additive and no variable may be dropped
                kw = dict(k)
                opv = kw.get("op", a[2] if len(a) > 2 else None)
                ops = opv if isinstance(opv, list) else [opv]
                optional = kw.get("optional_var", a[1] if len(a) > 1 else False)
                promised = bool(ops) and all(o in ("+", "-") for o in ops) and not optional
                if promised:
                    rec.arm("like-promise:simplify-multiple-terms")
            if promised:
                rec.arm("like-promise:checked")
                try:
                    has = independent_has_like_terms(text)
                except Exception as e:
                    has = None
                if has is False:
                    bad(f"gen/{name}/no-like-terms", "a generator that promises a pair of like terms produced none", f"'{text}'")
                    return
                import mathy_core.util as U

                try:
                    if not U.has_like_terms(f(ExpressionParser(), text)):
                        rec.arm("like-promise:util-disagrees-diagnostic")
                except Exception:
                    pass
            rec.nontrivial(("gen", name, repr(a), repr(sorted(k.items())), STATE["seed"], mode))

        return post

    for g in GENS:
        contracts.attach(P, g, post=make(g))

    def post_vars(snap, a, k, res, exc):
        rec = core.REC
        if _nested():
            return
        rec.ev()
        rec.arm("helper:get_rand_vars")
        num = a[0] if a else k.get("num_vars")
        excl = (a[1] if len(a) > 1 else k.get("exclude_vars")) or []
        common = a[2] if len(a) > 2 else k.get("common_variables", False)
        pool = [v for v in (P.common_variables if common else P.variables) if v not in excl]
        w = {"num_vars": num, "exclude": list(excl), "seed": STATE["seed"]}
        if exc is not None:
            if isinstance(exc, ValueError) and (num > len(pool) or num > 25 or num >= len(pool) - 0):
                rec.arm("helper:get_rand_vars:expected-ValueError")
                return
            if isinstance(exc, ValueError):
                # the retry bound was exhausted although the request is satisfiable: the helper
                # refused; the statement constrains the sets it returns (and generators, which must
                # not raise -- decided there), so this is counted, not judged
                rec.arm("helper:get_rand_vars:gave-up-on-satisfiable-request-diagnostic")
                return
            w["summary"] = f"get_rand_vars({num}) raised {type(exc).__name__}"
            rec.violation("C17", "helper/get_rand_vars/raises", "get_rand_vars raised an unexpected exception", w)
            return
        if len(res) != num or len(set(res)) != len(res) or any(v in excl for v in res) or any(v not in pool for v in res):
            w["summary"] = f"get_rand_vars({num}, exclude={list(excl)}) = {res}"
            rec.violation("C17", "helper/get_rand_vars/set", "requested variables are not distinct / not as many as requested / excluded", w)
        else:
            rec.nontrivial(("vars", num, tuple(excl), STATE["seed"]))

    contracts.attach(P, "get_rand_vars", post=post_vars)

    def post_blocker(snap, a, k, res, exc):
        # the other public way to ask for a set of variables with exclusions: as the text 'c1 v1 + c2 v2 + ...'
        # (also the helper behind both move-around-blockers generators, whose calls are decided here too)
        rec = core.REC
        num = a[0] if a else k.get("num_blockers", 1)
        excl = (a[1] if len(a) > 1 else k.get("exclude_vars")) or []
        if exc is not None or not isinstance(res, str) or not isinstance(num, int):
            return          # refusals: see get_rand_vars
        rec.ev()
        rec.arm("helper:get_blocker")
        letters = [ch for ch in res if ch.isalpha()]
        terms = res.split(" + ")
        if len(terms) != num or len(letters) != num or len(set(letters)) != num or any(v in excl for v in letters):
            rec.violation("C17", "helper/get_blocker/set", "requested variables are not distinct / not as many as requested / excluded",
                          {"num_vars": num, "exclude": list(excl), "seed": STATE["seed"], "blocker": True,
                           "summary": f"get_blocker({num}, exclude={list(excl)}) = {res!r} (seed {STATE['seed']})"})
        else:
            rec.nontrivial(("blocker", num, tuple(excl), STATE["seed"]))

    contracts.attach(P, "get_blocker", post=post_blocker)

    def post_split(snap, a, k, res, exc):
        rec = core.REC
        if _nested():
            return
        rec.ev()
        rec.arm("helper:split_in_two_random")
        v = a[0] if a else k.get("value")
        ok = exc is None and isinstance(res, tuple) and len(res) == 2 and res[0] + res[1] == v and 0 <= res[0] <= res[1]
        if not ok:
            rec.violation("C17", "helper/split_in_two_random", "a two-way split does not sum to its input (lower, higher)",
                          {"value": v, "summary": f"split_in_two_random({v}) = {res!r} {exc!r}"})
        else:
            rec.nontrivial(("split", v, res))

    contracts.attach(P, "split_in_two_random", post=post_split)

    def post_templates(snap, a, k, res, exc):
        rec = core.REC
        if _nested():
            return
        rec.ev()
        rec.arm("helper:get_rand_term_templates")
        num = a[0] if a else k.get("num_templates")
        excl = (a[1] if len(a) > 1 else k.get("exclude_like")) or []
        if exc is not None:
            if isinstance(exc, EnvironmentError):
                rec.arm("helper:get_rand_term_templates:gave-up")
                return
            rec.violation("C17", "helper/get_rand_term_templates/raises", "get_rand_term_templates raised",
                          {"summary": f"get_rand_term_templates({num}) raised {type(exc).__name__}: {exc}"})
            return
        # (the exponent's type is part of the key: the pinned code tells x^2 from x^2.0, and asking for more is not the property)
        keys = [(t.variable, t.exponent, type(t.exponent).__name__) for t in res]
        ex = [(t.variable, t.exponent, type(t.exponent).__name__) for t in excl]
        if len(res) != num or len(set(keys)) != len(keys) or any(kk in ex for kk in keys) or any(t.exponent == 1 for t in res):
            rec.violation("C17", "helper/get_rand_term_templates/set", "term templates are not distinct / excluded ones returned",
                          {"summary": f"get_rand_term_templates({num}, exclude={ex}) = {keys}"})
        else:
            rec.nontrivial(("templates", num, tuple(keys)))

    contracts.attach(P, "get_rand_term_templates", post=post_templates)

    def post_number(snap, a, k, res, exc):
        rec = core.REC
        mode = "pretty" if P._pretty_numbers else "full"
        rec.arm("helper:rand_number:" + mode)
        if _nested():
            return
        rec.ev()
        ok = exc is None and isinstance(res, (int, float)) and not isinstance(res, bool) and res == res
        if ok and mode == "pretty":
            ok = isinstance(res, int) and 1 <= res <= 12
        if ok and mode == "full":
            ok = -10000 <= res <= 10000
        if not ok:
            rec.violation("C17", "helper/rand_number/" + mode, "rand_number outside its documented range",
                          {"summary": f"rand_number() = {res!r} in mode {mode}"})

    contracts.attach(P, "rand_number", post=post_number)


_GEN_DEPTH = [0]


def _nested():
    return _GEN_DEPTH[0] > 0


def classify_raise(name, a, k, exc):
    """mechanism key for a raising generator call"""
    if name == "gen_combine_terms_in_place" and isinstance(exc, ValueError) and "random variables" in str(exc):
        # the noise request (total_terms - 2) is drawn from a pool of 23 variables (24 letters minus the
        # focus variable): N >= 24 can never be served.  (N = 22/23 used to exhaust the retry bound of
        # get_rand_vars; repaired in e5f08bc, so such a failure is reported again.)
        import re

        m = re.search(r"for (\d+) random variables", str(exc))
        if m and int(m.group(1)) >= 24:
            return "gen/gen_combine_terms_in_place/noise-request-above-pool(N>=24 of 23)"
    return f"gen/{name}/raises/{type(exc).__name__}"


# ------------------------------------------------------------------ workload

def calls(rng):
    """(generator name, args, kwargs) inside the documented ranges"""
    import mathy_core.problems as P

    r = rng
    probs = [0.0, 0.33, 0.5, 0.8, 1.0]
    yield "gen_binomial_times_binomial", (), {}
    yield "gen_binomial_times_binomial", (), dict(min_vars=r.randint(1, 2), max_vars=r.randint(2, 4), simple_variables=r.random() < 0.5,
                                                  powers_probability=r.choice(probs), like_variables_probability=r.choice(probs))
    yield "gen_binomial_times_monomial", (), {}
    yield "gen_binomial_times_monomial", (), dict(min_vars=r.randint(1, 2), max_vars=r.randint(2, 3), simple_variables=r.random() < 0.5,
                                                  powers_probability=r.choice(probs), like_variables_probability=r.choice(probs))
    yield "gen_simplify_multiple_terms", (r.randint(2, 12),), {}
    yield "gen_simplify_multiple_terms", (r.randint(2, 12),), dict(
        optional_var=r.random() < 0.5, op=r.choice([None, "+", "-", "*", ["+", "-"], ["+", "*"], "+", ["+", "-"]]), common_variables=r.random() < 0.5,
        inner_terms_scaling=r.choice([0.1, 0.3, 0.5, 0.75, 0.9, 0.95, 0.99]), powers_probability=r.choice(probs), optional_var_probability=r.choice(probs),
        noise_probability=r.choice(probs), shuffle_probability=r.choice(probs), share_var_probability=r.choice(probs),
        grouping_noise_probability=r.choice(probs), noise_terms=r.choice([None, 1, 2, 3, 5]))
    yield "gen_combine_terms_in_place", (), dict(min_terms=r.randint(2, 10), max_terms=r.randint(10, 22), easy=r.random() < 0.5, powers=r.random() < 0.5)
    yield "gen_combine_terms_in_place", (), {}
    yield "gen_commute_haystack", (), {}
    lo = r.randint(3, 8)
    yield "gen_commute_haystack", (), dict(min_terms=lo, max_terms=lo + r.randint(0, 6), commute_blockers=r.randint(1, 10), easy=r.random() < 0.5, powers=r.random() < 0.5)
    yield "gen_move_around_blockers_one", (r.randint(1, 10),), {}
    yield "gen_move_around_blockers_one", (r.randint(1, 10),), dict(powers_probability=r.choice(probs))
    yield "gen_move_around_blockers_two", (r.randint(1, 10),), {}
    yield "gen_move_around_blockers_two", (r.randint(1, 10),), dict(powers_probability=r.choice(probs))


class hostile_draws:
    """The promises hold 'for every random seed', i.e. for every outcome the random source may legally
    produce.  Inside this block the module-level draws the generators use are answered, now and then, with a
    legal but unlikely outcome: an end of the requested range, its neighbour, -1 / 0 / 1 / 2 when in range,
    0.0 or the largest float below 1.  Everything else is the ordinary seeded source; the decisions come from
    a private generator seeded with the same seed, so a witness replays exactly."""

    NAMES = ("randint", "random", "uniform", "randrange")
    COUNT = [0]

    def __init__(self, seed, rate=0.12):
        self.dec = random.Random(seed ^ 0x5A5A5A)
        self.rate = rate

    def __enter__(self):
        self.real = {n: getattr(random, n) for n in self.NAMES}
        dec, rate, real, count = self.dec, self.rate, self.real, self.COUNT

        def randint(a, b):
            v = real["randint"](a, b)
            if dec.random() < rate:
                cands = [x for x in (a, b, a + 1, b - 1, -1, 0, 1, 2) if a <= x <= b]
                count[0] += 1
                return dec.choice(cands)
            return v

        def rnd():
            v = real["random"]()
            if dec.random() < rate / 2:
                count[0] += 1
                return dec.choice((0.0, 1.0 - 2.0 ** -53, 2.0 ** -40, 0.5))
            return v

        def uniform(a, b):
            v = real["uniform"](a, b)
            if dec.random() < rate / 2:
                count[0] += 1
                return dec.choice((a, a + (b - a) * (1.0 - 2.0 ** -53), a + (b - a) * 2.0 ** -40))
            return v

        def randrange(start, stop=None, step=1):
            v = real["randrange"](start, stop, step) if stop is not None else real["randrange"](start)
            if step == 1 and dec.random() < rate / 2:
                lo, hi = (0, start) if stop is None else (start, stop)
                count[0] += 1
                return dec.choice((lo, hi - 1))
            return v

        for n, f in (("randint", randint), ("random", rnd), ("uniform", uniform), ("randrange", randrange)):
            setattr(random, n, f)
        return self

    def __exit__(self, *exc):
        for n, f in self.real.items():
            setattr(random, n, f)
        return False


class _plain_draws:
    def __enter__(self):
        return self

    def __exit__(self, *exc):
        return False


def many_plain_calls(rec, cfg, rng):
    """the generators re-sample on their own: a failure that needs an unlucky draw (one seed in tens of
    thousands) only shows in bulk.  Here only 'returns (text, positive int) without raising' is decided
    (the text of every n-th result is parsed by the ordinary monitor path)."""
    import mathy_core.problems as P

    plain = {g: getattr(getattr(P, g), "__vmon_original__", getattr(P, g)) for g in GENS}
    cases = [("gen_simplify_multiple_terms", (10,), {}), ("gen_simplify_multiple_terms", (12,), {}), ("gen_simplify_multiple_terms", (6,), {"inner_terms_scaling": 0.5}),
             ("gen_simplify_multiple_terms", (13,), {"common_variables": True}), ("gen_binomial_times_binomial", (), {}), ("gen_binomial_times_monomial", (), {}),
             ("gen_commute_haystack", (), {}), ("gen_move_around_blockers_one", (3,), {}), ("gen_move_around_blockers_two", (3,), {})]
    # "for every random seed": the seeds 0 .. N-1 in order, partitioned among the shards (VERIF_SEED shifts the window)
    per_case = cfg.scale(130000, 2500000)
    todo = []
    for ci, (name, a, k) in enumerate(cases):
        hi = per_case if name == "gen_simplify_multiple_terms" else per_case // 8
        todo.append((ci, hi))
    n = 0
    base = cfg.seed * per_case if cfg.seed > 1 else 0
    for i, (ci, sd) in enumerate(((ci, sd) for ci, hi in todo for sd in range(cfg.shard, hi, cfg.nshards))):
        if i % 4096 == 0 and cfg.out_of_time():
            break
        n += 1
        name, a, k = cases[ci]
        seed = base + sd
        P.use_pretty_numbers(sd % 2 == 0)
        random.seed(seed)
        try:
            res = plain[name](*a, **k)
            ok = isinstance(res, tuple) and len(res) == 2 and isinstance(res[0], str) and isinstance(res[1], int) and res[1] > 0
            exc = None
        except Exception as e:
            ok, exc = False, e
        rec.ev()
        if not ok:
            key = classify_raise(name, a, k, exc) if exc is not None else f"gen/{name}/result-type"
            rec.violation("C17", key, "a problem generator raised" if exc is not None else "a problem generator did not return (text, complexity)",
                          {"generator": name, "args": list(a), "kwargs": dict(k), "seed": seed, "pretty": sd % 2 == 0,
                           "summary": f"{name}(*{list(a)}, **{k}) seed={seed} pretty={sd % 2 == 0}: " + (f"raised {type(exc).__name__}: {str(exc)[:80]}" if exc is not None else f"returned {res!r}"[:120])})
    rec.arm("gen:plain-bulk-calls", n)
    rec.arm("gen:unlikely-draws-injected", hostile_draws.COUNT[0])
    P.use_pretty_numbers(True)


def run(rec, cfg):
    rec.accept = {"gen", "vars", "split", "templates"}
    import mathy_core.problems as P

    attach_generators()
    rng = cfg.rng("c17")
    n = cfg.scale(600, 15000)
    state = random.getstate()
    try:
        for i in range(n):
            if cfg.elapsed() > 0.6 * cfg.deadline_s:     # the rest of the budget belongs to the seed sweep
                rec.truncated = True
                break
            for name, a, k in calls(rng):
                # (the shard that runs with the caller's own decimal context spends its calls on the number mode that has decimals)
                for pretty, hostile in (((False, False), (False, True), (False, False), (True, False)) if core.CALLER_ENV[0] else ((True, False), (False, False), (True, True), (False, True))):
                    seed = (cfg.seed * 1000003 + cfg.shard * 100003 + i * 31 + (0 if pretty else 7) + (0 if not hostile else 13)) % (2 ** 31)
                    random.seed(seed)
                    STATE["seed"] = seed
                    STATE["hostile"] = hostile
                    P.use_pretty_numbers(pretty)
                    _GEN_DEPTH[0] += 1
                    try:
                        with (hostile_draws(seed) if hostile else _plain_draws()):
                            out = getattr(P, name)(*a, **k)
                    except Exception as e:
                        out = e
                    finally:
                        _GEN_DEPTH[0] -= 1
                        STATE["hostile"] = False
                        P.use_pretty_numbers(True)
                    if rng.random() < 0.002:
                        rec.sample({"generator": name, "kwargs": {kk: repr(v) for kk, v in k.items()}, "seed": seed, "pretty": pretty, "output": repr(out)[:140]})
            # helpers, called directly
            random.seed(cfg.seed * 7 + cfg.shard * 13 + i)
            STATE["seed"] = cfg.seed * 7 + cfg.shard * 13 + i
            excl = rng.sample(P.variables, rng.randint(0, 6))
            for num in (rng.randint(1, 8), rng.randint(1, 17)):
                try:
                    P.get_rand_vars(num, excl)
                except Exception:
                    pass
            try:
                P.get_rand_vars(rng.randint(1, 3), rng.sample(P.common_variables, rng.randint(0, 1)), True)
            except Exception:
                pass
            if i % 10 == 0:
                for num, ex in ((26, []), (30, []), (4, None), (24 - len(excl) + 1, excl)):
                    try:
                        P.get_rand_vars(num, ex)
                    except Exception:
                        pass
            if i % 7 == 0:
                # whole-pool requests, consumed the way the generators consume them (pop), then the
                # ordinary calls that follow in this loop must still be served
                for args, kw in (((3,), {"common_variables": True}), ((24,), {}), ((2,), {"common_variables": True}), ((23,), {})):
                    try:
                        got = P.get_rand_vars(*args, **kw)
                        while got:
                            got.pop()
                        rec.arm("helper:get_rand_vars:result-consumed")
                    except Exception:
                        pass
            for num in (1, 2, 3, rng.randint(2, 8)):
                try:
                    P.get_blocker(num, excl if rng.random() < 0.7 else None)
                except Exception:
                    pass
            # the hold-out letters in whatever container the caller has them: membership is all that is asked of it
            for box in (tuple(excl), set(excl), frozenset(excl), "".join(excl), dict.fromkeys(excl).keys(), dict.fromkeys(excl, 1)):
                try:
                    P.get_rand_vars(rng.randint(1, 4), box)
                    P.get_blocker(rng.randint(1, 3), box)
                    rec.arm("helper:exclusions-in-other-containers")
                except Exception:
                    pass
            P.split_in_two_random(rng.randint(0, 40))
            try:
                t = P.get_rand_term_templates(rng.randint(1, 6), exponent_probability=rng.choice([0, 0.5, 1.0]), common_variables=rng.random() < 0.3)
                P.get_rand_term_templates(rng.randint(1, 3), exclude_like=t[:2], common_variables=False)
                # exclusions may be any MathyTermTemplate, e.g. the public subclass MathyProblemTerm
                # (a term of an existing problem): with only x, y, z to choose from and no exponents,
                # excluded letters would come back quickly if the exclusion were ignored
                ex = [P.MathyProblemTerm(variable=v, exponent=None) for v in rng.sample("xyz", 2)]
                P.get_rand_term_templates(1, exclude_like=ex, common_variables=True, exponent_probability=0)
                rec.arm("helper:get_rand_term_templates:subclass-exclusions")
                # ... or templates whose exponent is a float with a whole value (2.0, 7.0): with one letter
                # and few exponents to choose from an ignored exclusion comes back quickly
                # the second call re-draws exactly what the first call returned (same seed) while excluding it: in
                # the non-pretty mode that includes float exponents with whole values (7.0), negative and huge ones
                P.use_pretty_numbers(False)
                sd = rng.randrange(10 ** 9)
                random.seed(sd)
                first = P.get_rand_term_templates(5, common_variables=True, exponent_probability=1.0)
                random.seed(sd)
                try:
                    P.get_rand_term_templates(2, exclude_like=first, common_variables=True, exponent_probability=1.0)
                except EnvironmentError:
                    pass
                P.use_pretty_numbers(True)
                rec.arm("helper:get_rand_term_templates:redrawn-exclusions")
                # templates are plain mutable records: the ones a call returned are edited (the focus terms x, y become
                # x^2, y^2; a variable renamed) and then passed as the exclusions of the next call -- what they say NOW counts
                got = P.get_rand_term_templates(2, common_variables=True, exponent_probability=0)
                P.get_rand_term_templates(1, exclude_like=got, common_variables=True, exponent_probability=0)      # (used once as they are)
                for tpl in got:
                    tpl.exponent = 2
                random.seed(sd + 1)
                P.get_rand_term_templates(2, exclude_like=got, common_variables=True, exponent_probability=1.0)
                import copy as _copy

                edited = [_copy.copy(tpl) for tpl in got]
                for tpl in edited:
                    tpl.exponent = None
                    tpl.variable = "z" if tpl.variable != "z" else "x"
                P.get_rand_term_templates(1, exclude_like=edited, common_variables=True, exponent_probability=0)
                rec.arm("helper:get_rand_term_templates:edited-exclusions")
            except Exception:
                pass
            for pretty in (True, False):
                P.use_pretty_numbers(pretty)
                for _ in range(3):
                    P.rand_number()
            P.use_pretty_numbers(True)
        many_plain_calls(rec, cfg, rng)
    finally:
        P.use_pretty_numbers(True)
        random.setstate(state)


def replay(rec, cfg, w):
    import mathy_core.problems as P

    attach_generators()
    if "generator" in w:
        random.seed(w["seed"])
        STATE["seed"] = w["seed"]
        P.use_pretty_numbers(bool(w.get("pretty", True)))
        _GEN_DEPTH[0] += 1
        STATE["hostile"] = bool(w.get("hostile"))
        try:
            with (hostile_draws(w["seed"]) if w.get("hostile") else _plain_draws()):
                getattr(P, w["generator"])(*w.get("args", []), **w.get("kwargs", {}))
        except Exception:
            pass
        finally:
            _GEN_DEPTH[0] -= 1
            STATE["hostile"] = False
            P.use_pretty_numbers(True)
    elif "num_vars" in w:
        # helper witnesses: the draw that failed was somewhere inside a longer sequence, so the same request is
        # made again under a few hundred seeds
        for sd in range(300):
            random.seed((w.get("seed") or 0) + sd)
            STATE["seed"] = (w.get("seed") or 0) + sd
            try:
                if w.get("blocker"):
                    P.get_blocker(w["num_vars"], list(w.get("exclude") or []))
                else:
                    P.get_rand_vars(w["num_vars"], list(w.get("exclude") or []))
            except Exception:
                pass
