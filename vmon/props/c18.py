"""C18 -- tree layout satisfies the tidy-tree invariants and is repeatable."""
from .. import contracts, core
from ..oracles import shadow as S
from ..workloads import shapes as W9

MANIFEST = dict(
    technique="runtime contract on TreeLayout.layout (exit: geometry of the assigned x/y and returned measurement against the tidy-tree invariants) + relational checks over repeated and mirrored layouts; exhaustive shape workload",
    text="Every layout() call on all tree shapes up to the bound, on full binary trees and on expression trees, under several unit multipliers, is decided at exit: y = depth*unit, left/right placement, centring, per-level order and separation, and the reported bounds; the harness lays every tree out twice and lays out its mirror image, mostly through one long-lived TreeLayout object that sees trees of all sizes and units in turn. Violations are keyed by sub-invariant and shape class (plain / has a one-child node / the layout left a thread attribute). The contour code of the pinned commit failed five of the sub-invariants for two of the classes; it was repaired (fix commit 029241d) and every sub-invariant is now decided strictly for every class. Held on the shapes observed.",
    note="Trusts plain geometry on the x/y attributes. Shape class 'threaded' is read from the layout's own thread attribute after the call.",
    ref="DESIGN.md 3/C18",
)
RULE = (
    "W9: all binary tree shapes up to N nodes (quick 9, thorough 12), full binary trees up to 15 nodes, random full trees to 49 "
    "nodes, random shapes to 60 nodes, parsed expression trees; unit multipliers {1, 2, 0.5, 10} x {1, 3, 0.25, 7}; every tree laid "
    "out twice and mirrored; node ids fresh / all equal / three ids round-robin / a clone() of such a tree (ids are not unique "
    "within a tree), live parsed expressions and the clone-built results of DM / DF / BM laid out directly.  distinct non-trivial = (shape, multipliers) with >= 3 nodes whose invariants were all evaluated."
)
ASSUMPTIONS = ["separation/ordering compared with 1e-9 absolute tolerance", "mirror image of coordinates is x -> -x (the root is placed at x = 0)"]
EXHAUSTIVE = True
SHARDS = {"quick": 8, "thorough": 16}
DEADLINE = {"quick": 50, "thorough": 420}
REQUIRED = {"layout:calls": 2000, "layout:class:plain": 100, "layout:class:one-child": 500, "layout:repeat-compared": 500,
            "layout:mirror-compared": 500, "inv:y": 1000, "inv:bounds": 1000, "layout:subtree-with-parent": 200, "layout:extreme-units": 10, "layout:default-units-after-explicit-ones": 200, "layout:measure-then-edit-then-layout": 200, "layout:two-step-measure-transform": 200, "layout:detached-subtree": 200, "layout:ids:same": 100, "layout:ids:eq-by-value": 100, "layout:ids:stale-parents": 100, "layout:ids:pool3": 100, "layout:ids:clone": 100, "inv:centre": 500, "inv:sep": 500}
EPS = 1e-9


def levels(root):
    """in-order node sequence with depths"""
    out = []

    def rec(n, d):
        if n is None:
            return
        rec(n.left, d + 1)
        out.append((n, d))
        rec(n.right, d + 1)

    rec(root, 0)
    return out


def shape_class(root):
    nodes = S.nodes_preorder(root)
    if any((n.left is None) != (n.right is None) for n in nodes):
        return "one-child"
    if any(getattr(n, "thread", None) is not None for n in nodes):
        return "threaded"
    return "plain"


def geometry(root, ux, uy, m):
    """list of (sub-invariant, message) failures"""
    bad = []
    seq = levels(root)
    for n, d in seq:
        if n.y is None or n.x is None:
            return [("assigned", "a node has no coordinates")]
    # tolerances are relative to the unit in use (grids of 1e-10 and of 1e12 are both legitimate)
    ex, ey = EPS * abs(ux), EPS * abs(uy)
    for n, d in seq:
        if abs(n.y - d * uy) > ey * max(1, d):
            bad.append(("y", f"node at depth {d} has y={n.y} (unit {uy})"))
            break
    for n, d in seq:
        if n.left is not None and not n.left.x < n.x - ex:
            bad.append(("left", f"left child at x={n.left.x} is not left of its parent at x={n.x}"))
            break
    for n, d in seq:
        if n.right is not None and not n.right.x > n.x + ex:
            bad.append(("right", f"right child at x={n.right.x} is not right of its parent at x={n.x}"))
            break
    for n, d in seq:
        if n.left is not None and n.right is not None and abs(n.x - (n.left.x + n.right.x) / 2) > max(ex, EPS * abs(n.x)):
            bad.append(("centre", f"parent at x={n.x} is not centred over children at {n.left.x}, {n.right.x}"))
            break
    last = {}
    for n, d in seq:
        if d in last and not n.x - last[d] >= ux - max(ex, EPS * abs(n.x)):
            bad.append(("sep", f"level {d}: x={last[d]} then x={n.x} (unit {ux})"))
            break
        last[d] = n.x
    xs = [n.x for n, _ in seq]
    ys = [n.y for n, _ in seq]
    want = {"minX": min(xs), "maxX": max(xs), "minY": min(ys), "maxY": max(ys)}
    want["width"] = want["maxX"] - want["minX"]
    want["height"] = want["maxY"] - want["minY"]
    want["centerX"] = want["minX"] + want["width"] / 2
    want["centerY"] = want["minY"] + want["height"] / 2
    for k, v in want.items():
        g = getattr(m, k, None)
        if g is None or abs(g - v) > max(EPS * abs(v), ex if k in ("minX", "maxX", "width", "centerX") else ey):
            bad.append(("bounds", f"measurement.{k}={g} but the bounding box gives {v}"))
            break
    return bad


def attach_layout(prop="C18"):
    from mathy_core.layout import TreeLayout

    def post(snap, a, k, res, exc):
        root = a[1] if len(a) > 1 else k.get("node")
        ux = a[2] if len(a) > 2 else k.get("unit_x_multiplier", 1.0)
        uy = a[3] if len(a) > 3 else k.get("unit_y_multiplier", 1.0)
        if root is None:
            return
        decide_layout(prop, root, ux, uy, res, exc)

    contracts.attach(TreeLayout, "layout", post=post)


def decide_layout(prop, root, ux, uy, res, exc):
    """one finished layout (through layout(), or through its two public halves measure() + transform())"""
    if True:
        rec = core.REC
        rec.ev()
        rec.arm("layout:calls")
        shp = W9.shape_str(W9.shape_of(root))
        if exc is not None:
            rec.violation(prop, f"layout/raises/{type(exc).__name__}", "layout raised", {"shape": shp, "ux": ux, "uy": uy, "ids": IDS["now"], "summary": f"layout of {shp} raised {type(exc).__name__}: {exc}"})
            return
        cls = shape_class(root)
        rec.arm("layout:class:" + cls)
        fails = geometry(root, ux, uy, res)
        failed = {f[0] for f in fails}
        for inv in ("y", "left", "right", "centre", "sep", "bounds"):
            if inv not in failed:
                rec.arm("inv:" + inv)
        for inv, msg in fails:
            rec.violation(prop, f"layout/{inv}/{cls}", f"tidy-tree invariant '{inv}' does not hold",
                          {"shape": shp, "ux": ux, "uy": uy, "class": cls, "ids": IDS["now"], "summary": f"layout of shape {shp[:80]} (units {ux},{uy}; {cls}; ids {IDS['now']}): {msg}"})
        if not fails and W9.count(W9.shape_of(root)) >= 3:
            rec.nontrivial(("layout", shp, ux, uy))


def coords(root):
    return [(n.x, n.y) for n in S.nodes_preorder(root)]


ID_SCHEMES = ("fresh", "same", "pool3", "clone", "eq-by-value", "stale-parents")


def node_factory(ids="fresh"):
    """ids: 'fresh' = the counter ids of new nodes; 'same' = every node carries one id; 'pool3' =
    three ids shared round-robin; 'clone' = the tree is a clone() of a fresh one whose two
    subtrees were given equal ids (ids are not unique within a tree: clone() copies them and the
    rules build results out of clones)."""
    from mathy_core.tree import BinaryTreeNode

    if ids == "eq-by-value":
        # a subclass of the public node class that compares by payload (a dataclass-style node):
        # siblings, cousins and parent/child pairs that are EQUAL but not identical are common
        # (the payload is the height of the node, so a parent never equals its own child -- set_left /
        # set_right refuse a child that compares equal to the parent -- while siblings often do)
        class Payload(BinaryTreeNode):
            def __init__(self, left=None, right=None, value=0):
                self.value = 1 + max(getattr(left, "value", 0), getattr(right, "value", 0))
                super().__init__(left, right)

            def __eq__(self, other):
                return isinstance(other, Payload) and other.value == self.value

            def __hash__(self):
                return hash(self.value)

        return lambda l, r, i: Payload(l, r, i % 2)
    if ids == "same":
        return lambda l, r, i: BinaryTreeNode(l, r, None, "n")
    if ids in ("pool3", "clone"):
        return lambda l, r, i: BinaryTreeNode(l, r, None, f"n{i % 3}")
    return lambda l, r, i: BinaryTreeNode(l, r)


_SHARED = {}
IDS = {"now": "fresh"}


def drive_shape(rec, s, units, fac=None, ids="fresh"):
    from mathy_core.layout import TreeLayout as _TL

    IDS["now"] = ids
    rec.arm("layout:ids:" + ids)

    # one long-lived TreeLayout object lays out trees of all sizes and units in turn (state left
    # on the layout object by an earlier, larger layout must not leak into the next result);
    # every third layout uses a fresh object
    if "obj" not in _SHARED:
        _SHARED["obj"] = _TL()
        _SHARED["n"] = 0

    def TreeLayout():
        # alternating blocks: in one, every third layout constructs a fresh object; in the other
        # nothing is constructed at all (a constructor may reset state shared by all instances)
        _SHARED["n"] += 1
        quiet = (_SHARED["n"] // 300) % 2 == 1
        return _TL() if (_SHARED["n"] % 3 == 0 and not quiet) else _SHARED["obj"]

    fac = fac or node_factory(ids)
    shp = W9.shape_str(s)
    for ux, uy in units:
        t = W9.build(s, fac)
        if ids == "clone":
            t = t.clone()
        if ids in ("fresh", "same", "pool3"):
            from ..workloads import copies as _CP

            t = _CP.routed(t, "tree", every=9)
        if ids == "stale-parents":
            # the drawing follows the left/right links; parent pointers of some nodes point somewhere
            # else (None, the root, a node of another tree) as they do in the "before" node a rewrite
            # leaves behind when it moves one of its children into the new tree
            ns = S.nodes_preorder(t)
            other = W9.build(s, node_factory())
            for j, nd in enumerate(ns[1:], 1):
                if j % 3 == 0:
                    nd.parent = None
                elif j % 3 == 1:
                    nd.parent = other
        try:
            TreeLayout().layout(t, ux, uy)
        except Exception as e:
            if ids == "stale-parents":
                rec.ev()
                rec.violation("C18", f"layout/raises/{type(e).__name__}", "layout raised",
                              {"shape": shp, "ux": ux, "uy": uy, "ids": ids, "summary": f"layout of {shp[:80]} (parent pointers of some nodes point elsewhere) raised {type(e).__name__}: {e}"})
            continue
        first = coords(t)
        cls1 = shape_class(t)
        if _SHARED["n"] % 4 == 1:
            # the unit multipliers are per-call arguments with default 1: a call that omits them
            # after a call that passed others, on the same object
            try:
                lay = _SHARED["obj"]
                lay.layout(t, ux, uy)
                lay.layout(t)
                lay.layout(t, unit_y_multiplier=uy)
                lay.layout(t, ux)                       # only the horizontal unit given: the vertical one is 1
                lay.layout(t, unit_x_multiplier=ux)
                rec.arm("layout:default-units-after-explicit-ones")
            except Exception:
                pass
        if _SHARED["n"] % 4 == 2:
            # the two phases are public too: measure() alone (someone only wants levels and offsets),
            # then the tree is edited in place, then a complete layout on the same object
            try:
                lay = _SHARED["obj"]
                lay.measure(t)
                inner2 = [n for n in S.nodes_preorder(t) if n.parent is not None]
                if inner2 and ids != "eq-by-value":   # (rotate compares nodes with ==: not for value-equal nodes)
                    inner2[(_SHARED["n"] // 4) % len(inner2)].rotate()
                    t = S.root_of(t)
                lay.layout(t, ux, uy)
                rec.arm("layout:measure-then-edit-then-layout")
                t = W9.build(s, fac)
                if ids == "clone":
                    t = t.clone()
                lay.layout(t, ux, uy)
            except Exception:
                t = W9.build(s, fac)
                try:
                    _SHARED["obj"].layout(t, ux, uy)
                except Exception:
                    continue
        if _SHARED["n"] % 4 == 3:
            # layout() is measure() followed by transform(): both halves are public (measure returns the
            # layout object for chaining), and calling them one after the other is the same job
            IDS["now"] = ids + "+two-step"
            for form in range(3):
                t2 = W9.build(s, fac)
                if ids == "clone":
                    t2 = t2.clone()
                lay = _SHARED["obj"] if form else _TL()     # (not through TreeLayout(): the phase counter stays put)
                m = exc2 = None
                try:
                    if form == 0:
                        m = lay.measure(t2).transform(t2, 0, ux, uy)
                    elif form == 1:
                        lay.measure(node=t2)
                        m = lay.transform(node=t2, x=0, unit_x_multiplier=ux, unit_y_multiplier=uy)
                    else:
                        lay.measure(t2, 0)
                        m = lay.transform(t2, 0, ux, unit_y_multiplier=uy)
                except Exception as e:
                    exc2 = e
                rec.arm("layout:two-step-measure-transform")
                decide_layout("C18", t2, ux, uy, m, exc2)
            IDS["now"] = ids
        if _SHARED["n"] % 5 == 0:
            # the measurement handed out is the caller's: scribbled on before the next layout
            try:
                m = TreeLayout().layout(t, ux, uy)
                m.minX = m.maxX = m.minY = m.maxY = 12345
                m.width = m.height = -1
            except Exception:
                pass
        # a sub-tree laid out on its own: the node handed to layout() is the root of the drawing,
        # whether or not it still has a parent (a sub-expression of a larger tree, or a subtree
        # that was replaced and kept its old parent pointer)
        inner = [n for n in S.nodes_preorder(t) if n.parent is not None and (n.left is not None or n.right is not None)]
        if inner:
            sub = inner[(_SHARED["n"] * 7) % len(inner)]
            IDS["now"] = ids + "+subtree"
            try:
                TreeLayout().layout(sub, ux, uy)
                rec.arm("layout:subtree-with-parent")
                par = sub.parent
                if par.left is sub:
                    par.set_left(None)
                else:
                    par.set_right(None)       # sub.parent still points at par (set_* keeps it by default)
                TreeLayout().layout(sub, ux, uy)
                rec.arm("layout:detached-subtree")
            except Exception:
                pass
            IDS["now"] = ids
            t = W9.build(s, fac)
            if ids == "clone":
                t = t.clone()
            try:
                TreeLayout().layout(t, ux, uy)
            except Exception:
                continue
        # the same nodes again
        try:
            TreeLayout().layout(t, ux, uy)
        except Exception:
            continue
        rec.ev()
        rec.arm("layout:repeat-compared")
        second = coords(t)
        if any(abs(a[0] - b[0]) > EPS * abs(ux) or abs(a[1] - b[1]) > EPS * abs(uy) for a, b in zip(first, second)):
            rec.violation("C18", f"layout/repeat/{cls1}", "laying out the same tree again gives different coordinates",
                          {"shape": shp, "ux": ux, "uy": uy, "class": cls1, "ids": ids, "summary": f"layout of shape {shp[:80]} twice (units {ux},{uy}; {cls1}): {first[:6]} then {second[:6]}"})
        # the mirror image
        tm = W9.build(W9.mirror(s), fac)
        t2 = W9.build(s, fac)
        try:
            TreeLayout().layout(tm, ux, uy)
            TreeLayout().layout(t2, ux, uy)
        except Exception:
            continue
        rec.ev()
        rec.arm("layout:mirror-compared")
        cls = shape_class(t2)
        if cls == "plain" and shape_class(tm) != "plain":
            cls = shape_class(tm)

        def mirrored_pairs(a, b):
            # a: node of the shape, b: node of the mirror shape
            if a is None or b is None:
                return []
            return [(a, b)] + mirrored_pairs(a.left, b.right) + mirrored_pairs(a.right, b.left)

        for a, b in mirrored_pairs(t2, tm):
            if abs(a.x + b.x) > EPS * max(abs(ux), abs(a.x)) or abs(a.y - b.y) > EPS * max(abs(uy), abs(a.y)):
                rec.violation("C18", f"layout/mirror/{cls}", "the mirrored tree does not get mirrored coordinates",
                              {"shape": shp, "ux": ux, "uy": uy, "class": cls, "ids": ids,
                               "summary": f"shape {shp[:80]} vs its mirror (units {ux},{uy}; {cls}): a node at x={a.x} corresponds to x={b.x}"})
                break


UNITS = [(1, 1), (2, 3), (0.5, 0.25), (10, 7)]
# the units are plain numbers: very fine and very coarse grids too
def typed_units():
    """multipliers are numbers: exact fractions and numpy scalars are as good as Python ints and floats"""
    from fractions import Fraction
    import numpy as np

    return [(Fraction(5, 2), Fraction(1, 3)), (np.int64(3), np.int64(2)), (np.float32(0.5), np.float32(2.0)), (2, Fraction(7, 2)), (np.float64(1.5), 3), (True, 2)]


EXTREME_UNITS = [(2 ** -31, 2 ** -31), (2.5e-10, 1), (1, 4e-12), (1e-6, 1e-9), (1e9, 1e12), (2 ** 40, 2 ** -40), (1e-300, 1e300)]


def run(rec, cfg):
    from mathy_core.parser import ExpressionParser

    rec.accept = {"layout"}
    attach_layout("C18")
    rng = cfg.rng("c18")
    from ..workloads import interrupted as _INT

    if cfg.shard == 6 % cfg.nshards:
        _INT.layout_cases(rec, "C18")
    nmax = cfg.scale(9, 12)
    idx = 0
    for s in W9.all_shapes_upto(nmax):
        idx += 1
        if not cfg.mine(idx):
            continue
        if cfg.out_of_time():
            rec.truncated = True
            break
        units = UNITS if W9.count(s) <= 6 else [UNITS[idx % 4], (1, 1)]
        drive_shape(rec, s, units, ids=ID_SCHEMES[(idx // cfg.nshards) % 6] if idx % 2 else "fresh")
        rec.arm("shapes:exhaustive")
        if idx % 211 == 0:
            rec.sample({"shape": W9.shape_str(s), "nodes": W9.count(s), "units": units})
    rec.notes["exhaustive_bound_nodes"] = nmax
    for j, s in enumerate(W9.all_shapes_upto(5)):
        if cfg.mine(j):
            drive_shape(rec, s, [EXTREME_UNITS[j % len(EXTREME_UNITS)], EXTREME_UNITS[(j + 3) % len(EXTREME_UNITS)]])
            tu = typed_units()
            drive_shape(rec, s, [tu[j % len(tu)], tu[(j + 2) % len(tu)]])
            rec.arm("layout:typed-units")
            rec.arm("layout:extreme-units")
    # full binary trees up to 15 nodes (7 inner nodes), all of them
    k = 0
    for inner in range(0, 8):
        for s in W9.shapes(inner):
            # a full tree from a shape with `inner` nodes: every absent child becomes a leaf
            def fill(x):
                return (None, None) if x is None else (fill(x[0]), fill(x[1]))
            k += 1
            if cfg.mine(k):
                drive_shape(rec, fill(s), [(1, 1), UNITS[k % 4]], ids=ID_SCHEMES[(k // cfg.nshards) % 6])
                rec.arm("shapes:full-exhaustive")
    for i in range(cfg.scale(20, 400)):
        if cfg.out_of_time():
            rec.truncated = True
            break
        s = W9.random_full_shape(rng, rng.randint(4, 24))
        drive_shape(rec, s, [(1, 1), rng.choice(UNITS)], ids=rng.choice(ID_SCHEMES))
        rec.arm("shapes:random-full")
        s = W9.random_shape(rng, rng.randint(9, 60), rng.choice([0.1, 0.3]))
        drive_shape(rec, s, [(1, 1)], ids=rng.choice(ID_SCHEMES))
        rec.arm("shapes:random")
    # many large random shapes, one layout each (shape-dependent slips of the contour walk need
    # wide subtrees receding and coming back: rare, about one tree in tens of thousands)
    from mathy_core.layout import TreeLayout as _TL2

    lay = _TL2()
    for i in range(cfg.scale(3000, 60000)):
        if cfg.out_of_time():
            rec.truncated = True
            break
        s = W9.random_shape(rng, rng.randint(40, 140), rng.choice([0.05, 0.15, 0.3, 0.5]))
        IDS["now"] = "fresh"
        try:
            lay.layout(W9.build(s, node_factory()), 1, 1)
            rec.arm("shapes:random-large-single-layout")
        except Exception:
            pass
    # deep chains / zig-zags and the shapes of long parsed sums
    if cfg.shard == 2 % cfg.nshards:
        from . import _rulecommon as RC

        for s in (W9.chain(150, "L"), W9.chain(150, "R"), W9.zigzag(201), W9.zigzag(64), W9.chain(101, "L")):
            drive_shape(rec, s, [(1, 1), (2, 3)])
            rec.arm("shapes:deep")
        for t in RC.long_texts()[:6]:
            try:
                drive_shape(rec, W9.shape_of(ExpressionParser().parse(t)), [(1, 1)])
                rec.arm("shapes:long-expression")
            except Exception:
                pass
    # expression trees

    from ..workloads import text as WT

    from mathy_core.layout import TreeLayout
    from mathy_core.rules import DistributiveMultiplyRule, DistributiveFactorOutRule, BalancedMoveRule

    IDS["now"] = "live"
    for t in WT.corpus()[cfg.shard::cfg.nshards][: cfg.scale(15, 200)]:
        try:
            root = ExpressionParser().parse(t)
        except Exception:
            continue
        s = W9.shape_of(root)
        if W9.count(s) <= 80:
            drive_shape(rec, s, [(1, 1)])
            rec.arm("shapes:expression")
            # the live expression tree itself, and the results of rules that build their output
            # out of clones (several nodes of one tree then carry the same id)
            IDS["now"] = "live"
            try:
                TreeLayout().layout(root, 1, 1)
                rec.arm("shapes:live-expression")
                for rule in (DistributiveMultiplyRule(), DistributiveFactorOutRule(), BalancedMoveRule()):
                    for n in rule.find_nodes(root)[:3]:
                        res = rule.apply_to(n.clone_from_root()).result.get_root()
                        TreeLayout().layout(res, 1, 1)
                        TreeLayout().layout(res.clone(), 2, 3)
                        rec.arm("shapes:live-rule-result")
            except Exception:
                pass


def replay(rec, cfg, w):
    if "failpoint" in w:
        from ..workloads import interrupted as _INT

        _INT.layout_cases(rec, "C18")      # deterministic: the whole family of cases is run again
        return
    attach_layout("C18")
    s = W9.parse_shape(w["shape"])
    ids = w.get("ids", "fresh")
    for i in (ID_SCHEMES if ids == "live" else (ids,)):
        drive_shape(rec, s, [(w.get("ux", 1), w.get("uy", 1))], ids=i)
