"""C09 -- any sequence of rewrites keeps the expression equivalent to the original."""
import random

from .. import core
from ..monitors import rules as MR
from ..oracles import exact as X
from ..oracles import shadow as S
from ..workloads import drive as D
from . import _rulecommon as RC

MANIFEST = dict(
    technique="trajectory monitor over rewrite episodes: the single-step apply_to contract (value/solution set, structure, print/re-parse, no exception) on every step, plus comparison of every intermediate root with the START expression by the exact evaluator, plus identity-level re-shadowing of all earlier states",
    text="Episodes of 10-60 steps (rule-balanced and novelty-seeking choice of rule and node, every step applied to clone_from_root) are observed step by step: each step must succeed, keep the tree well formed, print and re-parse, and the current root must stay equivalent to the start (exact, or 1e-9*scale once a step folded floats; same solution set for equations); all earlier roots are re-shadowed at identity level during and after the episode. Held on the episodes observed.",
    note="Same trusted base as C01/C02/C04/C07. Sequences are sampled, not enumerated.",
    ref="DESIGN.md 3/C09",
)
RULE = (
    "W7 episodes from corpus, problem-generator, template and random start expressions/equations; 10-60 steps; policy "
    "rule-balanced (uniform over rules with a match, then over nodes) or novelty-seeking (prefer rules not yet used).  "
    "distinct non-trivial = episode (start, step list) with >= 3 steps by >= 2 different rules, all compared with the start."
)
ASSUMPTIONS = ["an episode ends when a constant exceeds 1e10 or the tree exceeds 160 nodes",
               "once any step folded floating-point constants the comparison with the start uses 1e-9*scale"]
SHARDS = {"quick": 8, "thorough": 16}
DEADLINE = {"quick": 55, "thorough": 480}
REQUIRED = {"episodes": 100, "episodes:nontrivial": 50, "episode-steps": 1000, "start-compare:same": 500, "earlier-states:checked": 100,
            "episodes:equation": 10, "episodes:used-rules>=4": 10}


def compare_with_start(rec, start_sh, cur_sh, unresolved, hints, rng):
    """exact comparison on exactified shadows (see exact.resolve_folds); once a fold of the
    episode could not be resolved, expressions fall back to the tolerance and equations are
    skipped"""
    start_sh, cur_sh = X.exactify(start_sh), X.exactify(cur_sh)
    names = S.variables(start_sh) | S.variables(cur_sh)
    if start_sh[0] == "Equal":
        if cur_sh[0] != "Equal":
            return "diff", "no longer an equation"
        sig = list(hints) + X.assignments(names, rng, n_extra=2)
        sig = sig + X.witnesses([start_sh, cur_sh], names, sig)
        r = X.compare_equations(start_sh, cur_sh, sig, False, False)
        if r["diffs"]:
            if unresolved:
                return "skip", "unresolved float fold"
            s0, ta, tb = r["diffs"][0]
            return "diff", f"start holds={ta}, current holds={tb} at {X.sigma_json(s0)}"
        return ("same" if r["common"] >= 3 and r["true_a"] >= 1 else "skip"), ""
    if cur_sh[0] == "Equal":
        return "diff", "became an equation"
    sig = X.assignments(names, rng, n_extra=2)
    r = X.compare_values(start_sh, cur_sh, sig, False)
    if r["diffs"] and unresolved:
        r = X.compare_values(start_sh, cur_sh, sig, True)
    if r["diffs"]:
        s0, a, b = r["diffs"][0]
        return "diff", f"start {a}, current {b} at {X.sigma_json(s0)}"
    return ("same" if r["common"] >= (3 if names else 1) else "skip"), ""


# products whose multiplier contains like terms / foldable constants / a product of powers: after
# distributing, everything inside the multiplier exists TWICE with the same ids, and the two copies
# can then be rewritten differently
DUP_TEMPLATES = [
    "({t} + {t}) * (({w} + {c}{v}) + {c}{v})", "(({w} + {c}{v}) + {c}{v}) * ({t} + {t})", "({v} + {k}) * (({k} + {c}{w}) + {c}{w})",
    "({t} + {k}) * ({c}{v}{e} * {c}{v}{e})", "({k} + {v}) * (({k} + {k}) + {w})", "({c}{v} + {c}{v}) * ({w} + {k})", "(({w} + {v}) + {v}) * ({v} + {k})",
    "({t} + {t}) * (({c}{v} + {w}) + ({c}{v} + {t}))", "({w} + {k}) * ({v} * {v} + {v})", "({t} + {t}) * ({k}{v} * {w} + {k}{v} * {w})",
]


def run_episode(rec, root, rng, rules, max_steps, policy, text, hints, steps_script=None, rules_first=None):
    start_sh = S.shadow(root)
    ep = D.Episode(root, rng, policy=policy)
    folded = False
    MR.HINTS[:] = hints
    MR.new_lineage()
    MR.EPISODE["active"] = True
    crng = random.Random(core.h64(("c09", text)))
    status = "ok"
    for i in range(max_steps):
        prev_sh = S.shadow(ep.root)
        if steps_script is not None:
            if i >= len(steps_script):
                break
            label, idx = steps_script[i]
            node = S.nodes_inorder(ep.root)[idx]
            rule = MR.make_rule(label)
            new_root = D.step(rec, node, rule)
            ep.steps.append((label, idx))
            ep.rules_used.add(label)
            r = new_root is not None
            if r:
                ep.root = new_root
                ep.states.append((new_root, S.idshadow(new_root)))
        else:
            r = ep.next(rec, rules_first if (i == 0 and rules_first) else rules)
            if r is None and i == 0 and rules_first:
                r = ep.next(rec, rules)
        if r is None:
            break
        if r is False:
            status = "step-raised"   # decided by the apply contract (C06 alias)
            break
        cur_sh = S.shadow(ep.root)
        if D.too_big(cur_sh) or S.has_nonfinite(cur_sh):
            status = "bounded"
            break
        if MR.EPISODE.get("underflow"):
            status = "bounded"      # a fold landed in the underflow region of a double: nothing to compare with the start any more
            break
        if MR.EPISODE["folded"]:
            folded = True   # some fold of this episode could not be given its exact value
        rec.ev()
        v, d = compare_with_start(rec, start_sh, cur_sh, folded, hints, crng)
        rec.arm("start-compare:" + v)
        if v == "diff":
            rec.violation("C09", f"drift/{ep.steps[-1][0]}", "an intermediate expression is not equivalent to the start of the episode",
                          {"start": text, "steps": ep.steps, "current": S.text_of(ep.root), "detail": d,
                           "summary": f"episode from '{text}' after steps {ep.steps[-6:]}: '{S.text_of(ep.root)}' {d}"})
            status = "violated"
            break
        if i % 8 == 7:
            bad = ep.earlier_states_intact()
            rec.arm("earlier-states:checked")
            if bad is not None:
                status = "earlier-state-changed"
                break
    bad = ep.earlier_states_intact()
    rec.arm("earlier-states:checked")
    rec.ev()
    if bad is not None:
        rec.violation("C09", "earlier-state-modified", "a state reached earlier in the sequence was altered by a later step",
                      {"start": text, "steps": ep.steps, "state": bad,
                       "summary": f"episode from '{text}' steps {ep.steps[:10]}...: state {bad} changed afterwards"})
    MR.HINTS[:] = []
    MR.EPISODE["folded"] = False
    MR.EPISODE["active"] = False
    return ep, status


def run(rec, cfg):
    rec.accept = {"episode"}
    rec.alias = {"C01", "C02", "C04", "C05", "C06", "C07"}
    MR.CHECKS.update({"value", "equation", "structure", "print", "evaluate-after"})
    MR.attach_apply()
    rng = cfg.rng("c09")
    from ..workloads import interrupted as _INT

    if cfg.shard == 6 % cfg.nshards:
        _INT.balanced_move_cases(rec, "C09")
    rules = MR.rule_instances()
    n = cfg.scale(75, 20000)
    # directed episodes: distribute first, then a handful of steps among the rules that act inside
    # the two copies of the multiplier (regroup / swap / factor / fold / multiply variables)
    from ..workloads import exprs as WE

    inner = [(l, r) for l, r in rules if l in ("AG", "CS", "DF", "DF:c", "CA", "VM")]
    first = [(l, r) for l, r in rules if l == "DM"]
    for i in range(cfg.scale(90, 6000)):
        if cfg.elapsed() > 0.3 * cfg.deadline_s:      # (the directed episodes get a third of the budget at most)
            break
        text = WE.Filler(rng).fill(rng.choice(DUP_TEMPLATES))
        root = RC.parse_start(text)
        if root is None:
            continue
        ep, status = run_episode(rec, root, rng, inner, rng.randint(4, 12), "balanced", text, [], rules_first=first)
        rec.arm("episodes:duplicate-divergence")
        rec.arm("episodes:end:" + status)
        if len(ep.steps) >= 3:
            rec.nontrivial(("episode", text, tuple(ep.steps)))
    if cfg.shard == 5 % cfg.nshards:
        RC.wide_ints(rec, rules)
    for src, text, hints in RC.start_texts(cfg, rng, n, equations=0.25):
        if cfg.out_of_time():
            rec.truncated = True
            break
        root = RC.parse_start(text)
        if root is None:
            continue
        policy = rng.choice(["balanced", "novelty"])
        if rng.random() < 0.2:
            D.failing_renderings(rec)      # an agent logging its states also renders things that are not finished yet
        ep, status = run_episode(rec, root, rng, rules, rng.randint(10, 60), policy, text, hints)
        rec.arm("episodes")
        rec.arm("episodes:" + policy)
        rec.arm("episodes:end:" + status)
        rec.arm("episode-steps", len(ep.steps))
        if S.kind(root) == "Equal":
            rec.arm("episodes:equation")
        if len(ep.rules_used) >= 4:
            rec.arm("episodes:used-rules>=4")
        rec.notes["max_steps_seen"] = max(rec.notes.get("max_steps_seen", 0), len(ep.steps))
        if len(ep.steps) >= 3 and len(ep.rules_used) >= 2:
            rec.arm("episodes:nontrivial")
            rec.nontrivial(("episode", text, tuple(ep.steps)))
        if rng.random() < 0.03:
            rec.sample({"start": text[:100], "policy": policy, "steps": ep.steps[:30], "end": S.text_of(ep.root)[:160]})


def replay(rec, cfg, w):
    if "failpoint" in w:
        from ..workloads import interrupted as _INT

        _INT.balanced_move_cases(rec, "C09")      # deterministic: the whole family of cases is run again
        return
    rec.alias = {"C01", "C02", "C04", "C06", "C07"}
    MR.CHECKS.update({"value", "equation", "structure", "print"})
    MR.attach_apply()
    if "start" in w and "steps" in w:
        root = D.parse(w["start"])
        run_episode(rec, root, cfg.rng("r"), MR.rule_instances(), len(w["steps"]), "balanced", w["start"], [], steps_script=[tuple(x) for x in w["steps"]])
    elif "tree" in w:
        D.replay_apply(w)
