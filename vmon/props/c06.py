"""C06 -- a rule that reports it applies can be applied; the applicability check is pure."""
from .. import core
from ..monitors import rules as MR
from ..oracles import shadow as S
from ..workloads import drive as D
from . import _rulecommon as RC

MANIFEST = dict(
    technique="runtime contracts on can_apply_to (identity-level tree snapshot before/after, re-ask, ask on an independently constructed copy), find_nodes/find_node (vs own in-order scan) and apply_to (exception capture after an affirmative answer)",
    text="Every can_apply_to call made while scanning generated, corpus and rewritten trees with all 11 rule instances is checked for purity (object identities, parent pointers, payloads unchanged), stability (same answer on re-ask and on an identical tree built through the public constructors); every find_nodes/find_node result is compared with an in-order filter and its r_index marks; every answer is also compared with a FRESH instance of the same rule (a used instance must not answer differently); every apply_to that follows an affirmative answer must return a change whose result is an expression. Held on the calls observed.",
    note="Trusts our identity shadow and constructor-level copier; the _changed / r_index bookkeeping attributes are deliberately not part of the tree state.",
    ref="DESIGN.md 3/C06",
)
RULE = (
    "Start trees as for C01 (corpus, problem generators, arm templates in contexts, random sums/products, equations) plus "
    "constructor-built trees the parser never emits; all 11 rule instances scan every node (find_nodes + find_node), every "
    "match is applied to a clone, and the scan is repeated on rewritten trees (depth 3).  distinct non-trivial = (rule, tree, "
    "node) with an affirmative can_apply_to answer, or an application that completed."
)
ASSUMPTIONS = ["a node's _changed/_rendering_change/r_index/classes/cloned_* attributes are bookkeeping, not tree state"]
SHARDS = {"quick": 8, "thorough": 16}
DEADLINE = {"quick": 55, "thorough": 480}


def REQUIRED(tier):
    req = RC.required_apply_arms(2)
    req.update({"can:copy-asked": 5000, "find_node:CA": 50, "find_nodes:nonempty:BM": 10})
    for l, _ in [(l, 0) for l in RC.ARMS]:
        req["can:yes:" + l] = 20
        req["find_nodes:" + l] = 50
    return req


def odd_trees(rng):
    """W6: shapes the parser never emits, built through the public constructors."""
    from mathy_core import expressions as E
    import numpy as np

    C, V = E.ConstantExpression, E.VariableExpression
    x, y = (lambda: V("x")), (lambda: V("y"))
    yield E.MultiplyExpression(E.MultiplyExpression(C(2), x()), E.MultiplyExpression(C(3), y()))
    yield E.DivideExpression(E.DivideExpression(x(), C(2)), E.DivideExpression(C(4), y()))
    yield E.NegateExpression(E.NegateExpression(x()))
    yield E.NegateExpression(C(-4))
    yield E.AddExpression(E.NegateExpression(E.AddExpression(C(3), C(2))), x())
    yield E.AddExpression(C(np.int64(4)), C(np.float64(2.5)))
    yield E.MultiplyExpression(C(np.int64(2)), E.PowerExpression(x(), C(np.int64(3))))
    yield E.SubtractExpression(x(), E.MultiplyExpression(C(-3.0), y()))
    yield E.AddExpression(E.AddExpression(E.AddExpression(C(1), x()), C(2)), E.AddExpression(C(3), E.AddExpression(x(), C(4))))
    yield E.EqualExpression(E.AddExpression(x(), C(0)), E.MultiplyExpression(C(0), y()))
    yield E.PowerExpression(E.PowerExpression(x(), C(2)), E.PowerExpression(C(2), C(-3)))
    yield E.AddExpression(E.PowerExpression(x(), C(0)), E.PowerExpression(x(), C(0.0)))
    yield E.SubtractExpression(C(4), E.SgnExpression(E.SubtractExpression(x(), C(-1))))
    yield E.AddExpression(E.FactorialExpression(C(3)), E.AbsExpression(E.SubtractExpression(C(2), C(5))))
    yield E.MultiplyExpression(E.AddExpression(x(), y()), E.AddExpression(x(), C(1)))
    yield E.DivideExpression(x(), E.NegateExpression(E.NegateExpression(y())))
    yield E.EqualExpression(C(4), C(4))
    yield E.EqualExpression(C(9), C(4))
    # one-operand nodes built with the documented child_on_left=True option, inside material for every rule
    L = True
    yield E.EqualExpression(E.AddExpression(x(), E.FactorialExpression(C(3), L)), E.MultiplyExpression(C(2), E.NegateExpression(y(), L)))
    yield E.MultiplyExpression(E.AddExpression(x(), E.FactorialExpression(C(3), L)), E.AddExpression(E.SgnExpression(y(), L), C(1)))
    yield E.SubtractExpression(E.MultiplyExpression(C(4), x()), E.MultiplyExpression(E.FactorialExpression(C(2), L), x()))
    yield E.DivideExpression(E.AddExpression(C(2), C(3)), E.NegateExpression(E.AddExpression(x(), C(1)), L))
    yield E.EqualExpression(E.AddExpression(E.MultiplyExpression(C(2), x()), E.AbsExpression(C(-5), L)), E.AddExpression(y(), E.FactorialExpression(C(4), L)))
    yield E.PowerExpression(C(2), C(-3))
    yield E.DivideExpression(C(5), C(0))
    yield E.PowerExpression(C(0), C(-1))


def run(rec, cfg):
    rec.accept = {"can", "apply"}
    MR.CHECKS.update({"apply"})
    MR.attach_apply()
    MR.attach_can()
    MR.attach_find()
    rng = cfg.rng("c06")
    from ..workloads import interrupted as _INT

    if cfg.shard == 6 % cfg.nshards:
        _INT.rule_question_cases(rec, "C06")      # a question cut short, then the same question: same answer
    rules = RC.with_flippers(MR.rule_instances())
    n = cfg.scale(20, 12000)

    def drive(root, depth_limit=3, rules=rules, big=False):
        frontier = [root]
        for depth in range(depth_limit):
            nxt = []
            if cfg.out_of_time():
                break
            for r in frontier:
                for label, rule in rules:
                    rule.find_node(r)
                    if rng.random() < 0.2:
                        # the list find_nodes hands out is the caller's: emptied, then asked again
                        try:
                            lst = rule.find_nodes(r)
                            lst.clear()
                            lst.append(None)
                            rule.find_nodes(r)
                        except Exception:
                            pass
                for label, idx, new_root in D.apply_everywhere(rec, r, rules, rng, cap=5 if depth == 0 else 2):
                    if new_root is not None and not D.too_big(S.shadow(new_root), big):
                        nxt.append(new_root)
            if not nxt:
                break
            frontier = rng.sample(nxt, min(len(nxt), 2))

    if cfg.shard == 0:
        for t in odd_trees(rng):
            rec.arm("start:constructed")
            drive(t, 2)
    if cfg.shard == 5 % cfg.nshards:
        RC.wide_ints(rec, rules)
    for src, text, hints in RC.start_texts(cfg, rng, n, equations=0.25):
        if cfg.out_of_time():
            rec.truncated = True
            break
        big = src == "big-text"
        root = RC.parse_start(text, allow_big=big)
        rules = RC.flip(rules, rng)
        use = RC.rules_for(src, rules)
        if root is not None and src == "long-text" and S.size(S.shadow(root)) > 0:
            continue   # the purity monitor rebuilds the tree for every question: quadratic, too slow here
        if root is None:
            continue
        rec.arm("start:" + src)
        drive(root, rules=use, big=big)
        if D._small(root, 25) and not big:
            # every node as the START of a search (a leaf too: balanced move applies to leaves): the
            # first-match search and the full listing are decided against each other by the monitor
            for start in S.nodes_preorder(root):
                for label, rule in use:
                    try:
                        rule.find_node(start)
                        rule.find_nodes(start)
                    except Exception:
                        pass
            rec.arm("find:every-node-as-search-start")
            # the rules as in-place operations: listings made on one side only, two steps in a row on
            # the same objects, a node taken from the listing made before the last step
            if S.kind(root) == "Equal":
                D.apply_from_subtree_listing(rec, root, [(l, r) for l, r in use if l in ("BM", "CA", "DF", "VM", "CS", "AG")], rng)
            if src in ("arm-text", "edge-text", "near-text") or rng.random() < 0.3:
                D.inplace_pairs(rec, root, use, rng, first=5, second=4)
            if rng.random() < 0.3:
                D.inplace_chain(rec, root, use, rng, steps=rng.randint(2, 5))
        if rng.random() < 0.02:
            rec.sample({"source": src, "start": text[:120]})


def replay(rec, cfg, w):
    if "failpoint" in w:
        from ..workloads import interrupted as _INT

        _INT.rule_question_cases(rec, "C06")      # deterministic: the whole family of cases is run again
        return
    MR.CHECKS.update({"apply"})
    MR.attach_apply()
    MR.attach_can()
    MR.attach_find()
    root = S.build(S.from_json(w["tree"]))
    rules = [(w["rule"], MR.make_rule(w["rule"]))] if "rule" in w else MR.rule_instances()
    rng = cfg.rng("replay")
    try:
        for label, rule in rules:
            rule.find_node(root)
        D.apply_everywhere(rec, root, rules, rng, cap=50)
    except RecursionError:
        rec.skip("replay: tree too deep")
    if "node_index" in w:
        root = S.build(S.from_json(w["tree"]))
        try:
            rules[0][1].apply_to(S.nodes_inorder(root)[w["node_index"]])
        except Exception:
            pass
