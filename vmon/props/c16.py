"""C16 -- term analysis is order-invariant and inverse to term construction."""
import itertools
import random
from fractions import Fraction

from .. import contracts, core
from ..oracles import exact as X
from ..oracles import shadow as S
from ..workloads import drive as D
from ..workloads import exprs as WE
from ..workloads import text as WT

MANIFEST = dict(
    technique="runtime contracts on the util term functions (no exception on non-equation expressions, result types) + relational oracles over recorded results: permutation/regrouping invariance of has_like_terms, symmetry/reflexivity of terms_are_like (asked with nodes and with reused TermResult objects), get_term_ex vs the written triple, make_term value law (exact evaluator) and round trip, factor() vs brute-force divisor pairs",
    text="Each law is decided on generated inputs: sums of 2-6 terms in up to 24 orders x 3 groupings must give one has_like_terms answer; every ordered pair of term nodes must be judged symmetrically and every term reflexively; natural-order term texts over the full coefficient/variable/exponent grid must decompose to what was written; make_term of every such triple must evaluate to c*v^e at sampled points and decompose back; factor(n) must equal the brute-force divisor table for all n <= 20000 (thorough 200000) and sampled n <= 10^12; every monitored util call on nodes of non-equation expressions must not raise. Held on the inputs observed.",
    note="Trusts the exact evaluator and the brute-force divisor enumeration. 'Term' for reflexivity means a node for which get_term returns a result.",
    ref="DESIGN.md 3/C16",
)
RULE = (
    "Sums of 2-6 terms (coefficients int/decimal/negative/0/absent, 1-2 variables, exponents incl. 0/negative/decimal, products "
    "of terms, parenthesised sub-sums) x permutations x groupings; all node pairs of W3 expressions; term texts over the grid; "
    "factor for 1..N.  distinct non-trivial = a sum with >= 3 addends compared over >= 2 arrangements / an ordered pair of "
    "distinct nodes / a triple with >= 2 present components / an integer n."
)
ASSUMPTIONS = ["triples: coefficient None and 1 are the same coefficient when a variable is present", "factor() bound 10^12 (float division is exact below 2^53)"]
SHARDS = {"quick": 8, "thorough": 16}
DEADLINE = {"quick": 50, "thorough": 420}
REQUIRED = {"like:sums": 200, "like:sum-inside-a-wrapper": 50, "like:arrangements": 2000, "alike:pairs": 3000, "alike:term-result-pairs": 3000, "alike:reflexive": 500, "termex:texts": 300, "maketerm:triples": 200,
            "factor:n": 2000, "factor:asked-again-after-editing-the-result": 500, "noraise:has_like_terms": 500, "noraise:get_sub_terms": 500, "noraise:is_preferred_term_form": 500,
            "like:answer:True": 50, "like:answer:False": 50, "alike:answer:True": 100}

COEFS = ["", "2", "3", "12", "0.5", "2.5", "-1", "-3", "0", "1", "-0.25", "7", "100"]
EXPS = ["", "^2", "^3", "^0", "^-2", "^0.5", "^1", "^2.5", "^-1", "^99999", "^100000", "^199999", "^200001", "^2.00001", "^2.00002", "^1000000", "^1000001"]
VARS = "xyzab"
NAMES = ["has_like_terms", "terms_are_like", "get_term", "get_terms", "get_term_ex", "get_sub_terms", "is_simple_term", "is_preferred_term_form", "make_term", "factor"]


def attach_util():
    """no-exception contracts on the module functions (rebinding every importing namespace)"""
    import mathy_core
    import mathy_core.util as U
    import mathy_core.rules.balanced_move as bm
    import mathy_core.rules.distributive_factor_out as df
    import mathy_core.rules.variable_multiply as vm

    also_mods = [mathy_core, bm, df, vm]

    def make(name):
        def post(snap, a, k, res, exc):
            rec = core.REC
            rec.arm("noraise:" + name)
            if exc is None:
                return
            arg = a[0] if a else None
            node_ok = hasattr(arg, "left")
            if not node_ok:
                return
            try:
                root = S.root_of(arg)
            except Exception:
                return
            if S.kind(root) == "Equal" or S.audit(root, expr=True):
                rec.skip("util: equation or malformed tree (outside the property)")
                return
            rec.ev()
            rec.violation("C16", f"util-raises/{name}/{type(exc).__name__}", "a term predicate raised on a non-equation expression",
                          {"function": name, "tree": S.to_json(S.shadow(root)), "node_path": "".join(S.path_from_root(arg) or []),
                           "summary": f"{name}(node at {''.join(S.path_from_root(arg) or []) or 'root'} of '{S.text_of(root)}') raised {type(exc).__name__}: {str(exc)[:80]}"})

        return post

    for name in NAMES[:8]:
        contracts.attach(U, name, post=make(name), also=[(m, name) for m in also_mods])


def term_text(rng, two_vars=0.15):
    c = rng.choice(COEFS)
    v = rng.choice(VARS)
    e = rng.choice(EXPS)
    t = f"{c}{v}{e}"
    if rng.random() < two_vars:
        t += f" * {rng.choice([v, v, rng.choice(VARS)])}{rng.choice(['', '^2'])}"   # often the same variable again
    return t


def addend(rng):
    c = rng.random()
    if c < 0.7:
        return term_text(rng)
    if c < 0.85:
        return rng.choice(["4", "7", "0.5", "-3", "12", "1"])
    if c < 0.89:
        return f"({term_text(rng)} + {term_text(rng)})"
    if c < 0.93:
        # a function call among the addends (its own addends are not terms of the outer sum)
        return rng.choice([f"sgn({rng.choice(VARS)})", f"sgn({term_text(rng)} + 1)", f"2sgn({rng.choice(VARS)})", f"sgn({term_text(rng)} + {term_text(rng)})"])
    return f"{rng.choice(['2', '3', 'x'])} * ({term_text(rng)} + {rng.choice(['1', 'y'])})"


def arrangements(rng, terms, limit=24):
    perms = list(itertools.permutations(range(len(terms))))
    if len(perms) > limit:
        perms = rng.sample(perms, limit)
    for p in perms:
        ts = [terms[i] for i in p]
        yield " + ".join(ts)                                 # parser default (left-nested)
        s = ts[-1]
        for t in reversed(ts[:-1]):
            s = f"{t} + ({s})"
        yield s                                              # right-nested
        if len(ts) >= 3:
            k = rng.randrange(1, len(ts) - 1)
            yield "(" + " + ".join(ts[: k + 1]) + ") + (" + " + ".join(ts[k + 1:]) + ")" if k + 1 < len(ts) else " + ".join(ts)


_USER_CLASSES = {}


def with_user_subclasses(root, rng):
    """the same expression with some of its + and - nodes (and a product) being instances of a caller's own
    subclasses of the node classes (a subclass that only changes how the node is drawn): they ARE additions,
    subtractions and products"""
    from mathy_core import expressions as E

    if not _USER_CLASSES:
        for base in (E.AddExpression, E.SubtractExpression, E.MultiplyExpression, E.PowerExpression, E.NegateExpression):
            _USER_CLASSES[base] = type("Highlighted" + base.__name__, (base,), {"color": property(lambda self: "red")})

    def rebuild(n):
        if n is None:
            return None
        if isinstance(n, E.BinaryExpression):
            cls = type(n)
            if cls in _USER_CLASSES and rng.random() < 0.6:
                cls = _USER_CLASSES[cls]
            return cls(rebuild(n.left), rebuild(n.right))
        if isinstance(n, E.NegateExpression) and type(n) in _USER_CLASSES and rng.random() < 0.5:
            return _USER_CLASSES[type(n)](rebuild(n.get_child()))
        return n.clone()

    return rebuild(root)


def check_like_terms(rec, rng):
    import mathy_core.util as U

    terms = [addend(rng) for _ in range(rng.randint(2, 6))]
    answers = {}
    # sometimes the whole sum sits inside something (a factor, the base of a power, a negation, a function
    # argument, one operand of a larger sum): the answer still does not depend on how the sum is arranged
    wrap = rng.choice(["{}", "{}", "{}", "3 * ({})", "({})^2 + z", "-({})", "sgn({})", "({}) * y", "7 + 2({})", "({}) / 4", "q - ({})"])
    if wrap != "{}":
        rec.arm("like:sum-inside-a-wrapper")
    for text in (wrap.format(t) for t in arrangements(rng, terms, limit=rng.choice([6, 24]))):
        try:
            root = D.parse(text)
        except Exception:
            continue
        rec.arm("like:arrangements")
        try:
            answers[text] = bool(U.has_like_terms(root))
        except Exception as e:
            answers[text] = "raised " + type(e).__name__
        if rng.random() < 0.35:
            try:
                other = with_user_subclasses(root, rng)
            except Exception:
                other = None
            if other is not None:
                rec.arm("like:nodes-of-user-subclasses")
                try:
                    answers[text + "   [some + - * nodes are instances of user subclasses]"] = bool(U.has_like_terms(other))
                except Exception as e:
                    answers[text + "   [some + - * nodes are instances of user subclasses]"] = "raised " + type(e).__name__
    # the same node OBJECT as two addends (AddExpression(t, t); a parser hands out its cached tree for a repeated
    # text): it is the sum it prints as
    if wrap == "{}" and len(terms) >= 2 and rng.random() < 0.3:
        from mathy_core import expressions as E

        try:
            objs = {}
            for tx in terms:
                if tx not in objs:
                    objs[tx] = D.parse(tx)
            doubled = terms + [terms[0]]
            shared = None
            for tx in doubled:
                shared = objs[tx] if shared is None else E.AddExpression(shared, objs[tx])
            label = " + ".join(doubled) + "   [equal addends are one shared node object]"
            rec.arm("like:shared-addend-objects")
            answers[label] = bool(U.has_like_terms(shared))
            answers[" + ".join(doubled)] = bool(U.has_like_terms(D.parse(" + ".join(doubled))))
            if len(set(answers.values())) > 1 and answers[label] != answers[" + ".join(doubled)]:
                rec.ev()
                rec.violation("C16", "like-terms/order-or-grouping", "has_like_terms depends on the order or grouping of the added terms",
                              {"terms": doubled, "shared": True, "a": label, "b": " + ".join(doubled),
                               "summary": f"has_like_terms('{label}') = {answers[label]} but has_like_terms of the parsed text = {answers[' + '.join(doubled)]}"})
            # (the doubled sum is a different expression from the arrangements above: not compared with them)
            del answers[label], answers[" + ".join(doubled)]
        except Exception:
            pass
    if len(answers) < 2:
        return
    rec.ev()
    rec.arm("like:sums")
    vals = set(answers.values())
    for v in vals:
        rec.arm(f"like:answer:{v}")
    if len(vals) > 1:
        a = next(t for t, v in answers.items() if v == list(vals)[0])
        b = next(t for t, v in answers.items() if v == list(vals)[1])
        rec.violation("C16", "like-terms/order-or-grouping", "has_like_terms depends on the order or grouping of the added terms",
                      {"terms": terms, "a": a, "b": b,
                       "summary": f"has_like_terms('{a}') = {answers[a]} but has_like_terms('{b}') = {answers[b]}"})
    elif len(terms) >= 3:
        rec.nontrivial(("like", tuple(sorted(terms))))


def check_alike(rec, rng, root):
    import mathy_core.util as U

    nodes = S.nodes_inorder(root)
    if len(nodes) > 14:
        nodes = rng.sample(nodes, 14)
    is_term = {}
    for n in nodes:
        try:
            is_term[id(n)] = U.get_term(n) is not False
        except Exception:
            is_term[id(n)] = None
    text = S.text_of(root)
    for a in nodes:
        if is_term[id(a)]:
            rec.ev()
            rec.arm("alike:reflexive")
            try:
                r = U.terms_are_like(a, a)
            except Exception:
                continue
            if not r:
                rec.violation("C16", "alike/not-reflexive", "a term is not like itself",
                              {"tree": S.to_json(S.shadow(root)), "a": S.text_of(a), "summary": f"terms_are_like('{S.text_of(a)}', itself) is False (in '{text}')"})
    for a, b in itertools.combinations(nodes, 2):
        rec.ev()
        rec.arm("alike:pairs")
        try:
            ab = bool(U.terms_are_like(a, b))
            ba = bool(U.terms_are_like(b, a))
        except Exception:
            continue
        rec.arm(f"alike:answer:{ab}")
        if ab != ba:
            rec.violation("C16", "alike/asymmetric", "terms_are_like(a, b) differs from terms_are_like(b, a)",
                          {"tree": S.to_json(S.shadow(root)), "a": S.text_of(a), "b": S.text_of(b),
                           "summary": f"terms_are_like('{S.text_of(a)}', '{S.text_of(b)}') = {ab} but the other way round {ba} (in '{text}')"})
        else:
            rec.nontrivial(("alike", S.shadow(a), S.shadow(b)))


def check_alike_results(rec, rng, root):
    """the same relation asked with TermResult arguments (which the signature accepts): the
    result objects are obtained once and then used in many questions, in both orders and against
    themselves, the way a caller that analyses each term once would use them"""
    import mathy_core.util as U

    nodes = S.nodes_inorder(root)
    if len(nodes) > 10:
        nodes = rng.sample(nodes, 10)
    terms = []
    for n in nodes:
        try:
            t = U.get_term(n)
        except Exception:
            continue
        if t is not False and t is not None:
            terms.append((n, t))
    if not terms:
        return
    text = S.text_of(root)
    for round_ in range(2):
        for (na, ta), (nb, tb) in itertools.product(terms, terms):
            rec.ev()
            rec.arm("alike:term-result-pairs")
            try:
                ab = bool(U.terms_are_like(ta, tb))
                ba = bool(U.terms_are_like(tb, ta))
                # the answer for the nodes themselves (fresh analysis on every call)
                nn = bool(U.terms_are_like(na, nb))
            except Exception:
                continue
            w = {"tree": S.to_json(S.shadow(root)), "a": S.text_of(na), "b": S.text_of(nb), "via": "TermResult"}
            if ta is tb and not ab:
                rec.violation("C16", "alike/not-reflexive", "a term is not like itself",
                              dict(w, summary=f"terms_are_like(t, t) is False for t = get_term('{S.text_of(na)}') (in '{text}', question {round_ + 1})"))
            elif ab != ba:
                rec.violation("C16", "alike/asymmetric", "terms_are_like(a, b) differs from terms_are_like(b, a)",
                              dict(w, summary=f"with a = get_term('{S.text_of(na)}'), b = get_term('{S.text_of(nb)}'): terms_are_like(a, b) = {ab}, (b, a) = {ba} (in '{text}')"))
            elif ab != nn:
                rec.violation("C16", "alike/result-vs-node", "terms_are_like answers differently for term results than for their nodes",
                              dict(w, summary=f"terms_are_like on get_term results of '{S.text_of(na)}', '{S.text_of(nb)}' = {ab} but on the nodes = {nn} (in '{text}', question {round_ + 1})"))


def num(txt):
    if txt == "":
        return None
    return float(txt) if "." in txt else int(txt)


def same_num(a, b):
    if a is None or b is None:
        return a is None and b is None
    return Fraction(a) == Fraction(b)


def check_term_ex(rec, rng, c, v, e):
    """natural-order term text -> triple; make_term(triple) -> value law and round trip"""
    import mathy_core.util as U

    text = f"{c}{v}{('^' + e) if e != '' else ''}"
    if text in ("", "-"):
        return
    want_c, want_e = num(c) if c not in ("-",) else -1, num(e)
    try:
        root = D.parse(text)
    except Exception:
        return
    rec.ev()
    rec.arm("termex:texts")
    try:
        t = U.get_term_ex(root)
    except Exception as ex:
        return  # decided by the no-raise contract
    ok = t is not None and same_num(t.coefficient, want_c) and t.variable == (v or None) and same_num(t.exponent, want_e)
    if not ok:
        rec.violation("C16", "term_ex/not-what-was-written", "get_term_ex does not return the written (coefficient, variable, exponent)",
                      {"text": text, "got": repr(t), "summary": f"get_term_ex(parse('{text}')) = {t!r}, written ({want_c}, {v or None}, {want_e})"})
        return
    present = (want_c is not None) + (v != "") + (want_e is not None)
    if present >= 2:
        rec.nontrivial(("termex", text))
    # make_term
    if v == "":
        return
    coef = 1 if t.coefficient is None else t.coefficient
    rec.arm("maketerm:triples")
    rec.ev()
    try:
        built = U.make_term(coef, t.variable, t.exponent)
    except Exception as ex:
        rec.violation("C16", f"make_term/raises/{type(ex).__name__}", "make_term raised on a triple that get_term_ex returned",
                      {"text": text, "triple": repr(t), "summary": f"make_term{(coef, t.variable, t.exponent)} raised {type(ex).__name__}"})
        return
    bsh = S.shadow(built)
    # value law c * v^e
    from ..oracles import refgrammar as G

    ref = G.B("Multiply", G.C(coef), G.B("Power", G.V(t.variable), G.C(t.exponent if t.exponent is not None else 1)))
    sig = X.assignments([t.variable], rng)
    r = X.compare_values(ref, bsh, sig, tolerant=False)
    if r["diffs"]:
        s0, a, b = r["diffs"][0]
        rec.violation("C16", "make_term/value", "make_term(c, v, e) does not have the value c * v^e",
                      {"text": text, "triple": repr(t), "built": S.text_of(built), "summary": f"make_term{(coef, t.variable, t.exponent)} = '{S.text_of(built)}' evaluates to {b} instead of {a} at {X.sigma_json(s0)}"})
        return
    try:
        back = U.get_term_ex(built)
    except Exception:
        return
    same = back is not None and back.variable == t.variable and same_num(back.exponent, t.exponent) and (
        same_num(back.coefficient, t.coefficient) or (back.coefficient is None and coef == 1) or (t.coefficient is None and same_num(back.coefficient, 1)))
    if not same:
        rec.violation("C16", "make_term/round-trip", "get_term_ex(make_term(t)) is not t",
                      {"text": text, "triple": repr(t), "built": S.text_of(built), "back": repr(back),
                       "summary": f"make_term{(coef, t.variable, t.exponent)} = '{S.text_of(built)}' decomposes to {back!r}"})


def divisor_pairs(n):
    out = {}
    i = 1
    while i * i <= n:
        if n % i == 0:
            out[i] = n // i
            out[n // i] = i
        i += 1
    return out


def check_factor(rec, n):
    import mathy_core.util as U

    rec.ev()
    rec.arm("factor:n")
    try:
        got = U.factor(n)
    except Exception as ex:
        rec.violation("C16", f"factor/raises/{type(ex).__name__}", "factor raised on a positive integer", {"n": n, "summary": f"factor({n}) raised {type(ex).__name__}"})
        return
    want = divisor_pairs(n)
    if n % 3 == 0:
        # the table belongs to the caller: whatever is done to it must not show in a later answer
        try:
            snapshot = dict(got)
            got.clear()
            got["scribble"] = 0
            again = U.factor(n)
            rec.arm("factor:asked-again-after-editing-the-result")
            if dict(again) != snapshot:
                rec.violation("C16", "factor/table", "factor(n) does not list exactly the divisor pairs of n",
                              {"n": n, "edited_first_result": True, "summary": f"factor({n}) asked again after the caller edited the first table it was handed: {dict(list(again.items())[:6])} instead of {dict(list(snapshot.items())[:6])}"})
                return
            got = again
        except Exception:
            pass
    try:
        g = {Fraction(k): Fraction(v) for k, v in got.items()}
    except Exception:
        g = None
    w = {Fraction(k): Fraction(v) for k, v in want.items()}
    if g != w:
        rec.violation("C16", "factor/table", "factor(n) does not list exactly the divisor pairs of n",
                      {"n": n, "summary": f"factor({n}) = {dict(list(got.items())[:8])}... expected {len(want)} divisor pairs {dict(list(want.items())[:8])}"})
    else:
        rec.nontrivial(("factor", n))


def drive_predicates(rec, rng, root):
    """every predicate on (a sample of) the nodes of a non-equation expression"""
    import mathy_core.util as U

    nodes = S.nodes_inorder(root)
    if len(nodes) > 10:
        nodes = [root] + rng.sample(nodes, 9)
    for n in nodes:
        for f in (U.has_like_terms, U.get_term, U.get_terms, U.get_term_ex, U.get_sub_terms, U.is_simple_term, U.is_preferred_term_form):
            try:
                f(n)
            except Exception:
                pass  # decided by the contract
    a, b = rng.choice(nodes), rng.choice(nodes)
    try:
        U.terms_are_like(a, b)
    except Exception:
        pass
    # lists handed out are the caller's: emptied, then asked again (decided by the has_like_terms /
    # get_term monitors and the relational checks that follow in the same process)
    try:
        t = U.get_terms(root)
        t.clear()
        U.get_terms(root)
        st = U.get_sub_terms(a)
        if isinstance(st, list):
            st.clear()
            U.get_sub_terms(a)
    except Exception:
        pass


def after_rewrites_inside_terms(rec, rng):
    """the predicates are functions of the expression as it is NOW: asked, then the tree is rewritten in place
    below a term's top node (a product x * x^2 becomes x^(1 + 2), then x^3: the term's top node stays), then
    asked again of the same node objects -- the answers are those for a clone of the tree and for a fresh parse
    of its text"""
    import mathy_core.util as U
    import mathy_core.rules as R
    from mathy_core import expressions as E

    vm, ca = R.VariableMultiplyRule(), R.ConstantsSimplifyRule()
    v = rng.choice("xyzab")
    k = rng.choice([2, 3, 4])
    c1, c2 = rng.choice(["4", "2", "", "0.5", "-3"]), rng.choice(["3", "7", "", "2.5"])
    inner = f"({v} * {v}^{k - 1})" if k > 2 else f"({v} * {v})"
    wrap = rng.choice(["{a}{p} + {b}{q}", "{a} * {p} + {b}{q}", "-{p} + {b}{q}", "{b}{q} + {a}{p} + w", "({a}{p} + 1) + {b}{q}", "{b}{q} - {a}{p}"])
    text = wrap.format(a=c1 or "2", b=c2, p=inner, q=f"{v}^{k}")
    try:
        root = D.parse(text)
    except Exception:
        return
    if S.kind(root) == "Equal":
        return

    def answers(t):
        out = []
        try:
            out.append(("has_like_terms", bool(U.has_like_terms(t))))
        except Exception as e:
            out.append(("has_like_terms", type(e).__name__))
        ns = S.nodes_preorder(t)
        tops = [n for n in ns if isinstance(n.parent, (E.AddExpression, E.SubtractExpression))][:6]
        for a_ in tops:
            for b_ in tops:
                try:
                    out.append(bool(U.terms_are_like(a_, b_)))
                except Exception as e:
                    out.append(type(e).__name__)
        return out

    answers(root)                                   # asked once before anything is rewritten
    for step in range(2):
        if step == 0:
            cands = [n for n in S.nodes_preorder(root) if isinstance(n, E.MultiplyExpression) and isinstance(n.left, E.VariableExpression)
                     and isinstance(n.right, (E.VariableExpression, E.PowerExpression)) and vm.can_apply_to(n)]
            rule = vm
        else:
            cands = [n for n in S.nodes_preorder(root) if isinstance(n, E.AddExpression) and isinstance(n.left, E.ConstantExpression) and isinstance(n.right, E.ConstantExpression)
                     and isinstance(n.parent, E.PowerExpression) and n.parent.right is n and ca.can_apply_to(n)]
            rule = ca
        if not cands:
            return
        try:
            root = S.root_of(rule.apply_to(cands[0]).result)
        except Exception:
            return
        rec.ev()
        rec.arm("like:asked-again-after-a-rewrite-inside-a-term")
        live = answers(root)
        try:
            copy, fresh = answers(root.clone()), answers(D.parse(S.text_of(root)))
        except Exception:
            return
        if live != copy or (live[0] != fresh[0]):
            rec.violation("C16", "like-terms/depends-on-tree-history", "a term predicate answers differently for a tree than for its clone / its re-parsed text",
                          {"start": text, "summary": f"'{text}' asked, rewritten in place to '{S.text_of(root)}', asked again: has_like_terms = {live[0][1]} for the rewritten tree, "
                           f"{copy[0][1]} for its clone, {fresh[0][1]} for a fresh parse of its text" + ("" if live[1:] == copy[1:] else "; terms_are_like differs between the tree and its clone")})
            return


def deep_sums(rec):
    """sums of ~1500 pairwise unlike addends with or without one like pair (near the top, in the middle, at the
    bottom), grouped as a right-nested chain, a left-nested chain and a balanced tree, asked under the
    interpreter's DEFAULT recursion limit.  A chain that deep may be beyond a recursive walk (the pinned code
    raises RecursionError: not decided here); but an answer, when one is given, must not depend on the grouping."""
    import sys
    import mathy_core.util as U
    from mathy_core import expressions as E

    plain = getattr(U.has_like_terms, "__vmon_original__", U.has_like_terms)

    def term(c, e):
        return E.MultiplyExpression(E.ConstantExpression(c), E.PowerExpression(E.VariableExpression("x"), E.ConstantExpression(e)))

    def build(spec, how):
        ts = [term(c, e) for c, e in spec]
        if how == "right":
            cur = ts[-1]
            for t in reversed(ts[:-1]):
                cur = E.AddExpression(t, cur)
            return cur
        if how == "left":
            cur = ts[0]
            for t in ts[1:]:
                cur = E.AddExpression(cur, t)
            return cur
        while len(ts) > 1:
            ts = [E.AddExpression(ts[i], ts[i + 1]) if i + 1 < len(ts) else ts[i] for i in range(0, len(ts), 2)]
        return ts[0]

    old = sys.getrecursionlimit()
    for n in (700, 1500, 2600):
        base = [(i % 7 + 2, i + 2) for i in range(n)]
        for where in (None, 3, n // 2, n - 40, n - 2):
            spec = list(base)
            if where is not None:
                spec.insert(where, (5, base[where + 1][1] if where + 1 < n else base[0][1]))
            answers = {}
            for how in ("balanced", "right", "left"):
                root = build(spec, how)
                sys.setrecursionlimit(1000)
                try:
                    answers[how] = bool(plain(root))
                except RecursionError:
                    answers[how] = "RecursionError"
                except Exception as e:
                    answers[how] = "raised " + type(e).__name__
                finally:
                    sys.setrecursionlimit(old)
            rec.ev()
            rec.arm("like:deep-sums")
            given = {h: a for h, a in answers.items() if isinstance(a, bool)}
            truth = where is not None
            wrong = [h for h, a in given.items() if a != truth]
            other = [h for h, a in answers.items() if not isinstance(a, bool) and a != "RecursionError"]
            if wrong:
                rec.violation("C16", "like-terms/order-or-grouping", "has_like_terms depends on the order or grouping of the added terms",
                              {"deep_sums": True, "summary": f"a sum of {len(spec)} addends c*x^e, pairwise unlike" + (f" except for one like pair at position {where}" if truth else "")
                               + f": has_like_terms answers {answers} by grouping (default recursion limit)"})
            elif other:
                rec.violation("C16", "util-raises/has_like_terms/" + other[0], "a term predicate raised on a non-equation expression",
                              {"deep_sums": True, "summary": f"a sum of {len(spec)} addends: {answers}"})
            elif given:
                rec.nontrivial(("deep-sum", n, where))


def run(rec, cfg):
    rec.accept = {"like", "alike", "termex", "factor"}
    attach_util()
    rng = cfg.rng("c16")
    # factor: exhaustive slice partitioned among shards + sampled large
    N = cfg.scale(20000, 200000)
    for n in range(1, N + 1):
        if cfg.mine(n):
            check_factor(rec, n)
    rec.notes["factor_exhaustive_upto"] = N
    for _ in range(cfg.scale(30, 300)):
        check_factor(rec, rng.choice([rng.randint(10 ** 6, 10 ** 9), rng.randint(10 ** 9, 10 ** 12), rng.choice([2 ** 20, 2 ** 30 - 1, 999983 * 999979, 10 ** 12, 720720 * 1001, 2 ** 39])]))
    # term grid
    grid = [(c, v, e) for c in ["", "-", "1", "2", "4", "12", "0", "-1", "-3", "0.5", "2.5", "-0.25", "100", "007",
                                # coefficients next to 1 and -1 (precision boundaries: 1/49*49, 1 + 1e-10, one ulp above 1)
                                "0.9999999999999999", "1.0000000001", "1.0000000000000002", "0.9999999999", "-1.0000000001", "-0.9999999999999999", "0.0000000001", "1.00001",
                                # integer coefficients no double holds exactly (2^53+1, 2^63-1, 2^64+1, 10^20+1, 30 digits)
                                "9007199254740993", "-9007199254740993", "9223372036854775807", "18446744073709551617", "100000000000000000001",
                                "123456789012345678901234567891"] for v in ["", "x", "y", "Q"] for e in ["", "2", "3", "0", "1", "-2", "0.5", "2.5", "-1", "10"]]
    for i, (c, v, e) in enumerate(grid):
        if cfg.mine(i) and not (v == "" and e != "") and not (c in ("", "-") and v == ""):
            check_term_ex(rec, rng, c, v, e)
    from . import _rulecommon as RC
    import mathy_core.util as U

    if cfg.shard == 3 % cfg.nshards:
        for t in RC.long_texts():
            try:
                root = D.parse(t)
            except Exception:
                continue
            if S.kind(root) != "Equal":
                drive_predicates(rec, rng, root)
                rec.arm("like:long-expression")
    if cfg.shard == 6 % cfg.nshards:
        deep_sums(rec)
    if cfg.shard == 5 % cfg.nshards:
        big9 = "9" * 400
        for t in (f"x^({big9}/2) + 3x", f"x^(1/{big9}) + x^(1/{big9})", f"2x^({big9}/{big9}) + x", "x^(1/0) + x^(1/0)", f"x^({big9}) + 3x^({big9})", f"{big9}x + {big9}.5x",
                  f"x^(2^{big9[:3]}) + x", f"(x + {big9})^2 + x", f"x^-{big9} + x^-{big9}"):
            try:
                root = D.parse(t)
            except Exception:
                continue
            drive_predicates(rec, rng, root)
            check_alike(rec, rng, root)
            rec.arm("like:huge-literals")
    # the relation on a grid of exponent pairs (equal, adjacent, and close relative to their size)
    grid_e = ["2", "3", "0", "1", "-1", "-2", "0.5", "2.5", "99999", "100000", "100001", "199999", "200001", "2.00001", "2.00002", "1000000", "1000001", "0.1", "0.10000001"]
    k = 0
    for e1 in grid_e:
        for e2 in grid_e:
            k += 1
            if not cfg.mine(k):
                continue
            try:
                root = D.parse(f"2x^{e1} + 3x^{e2} + y^{e1}")
            except Exception:
                continue
            check_alike(rec, rng, root)
            check_alike_results(rec, rng, root)
            rec.arm("alike:exponent-grid")
    n = cfg.scale(500, 20000)
    corp = WT.corpus()
    for i in range(n):
        if cfg.out_of_time():
            rec.truncated = True
            break
        check_like_terms(rec, rng)
        after_rewrites_inside_terms(rec, rng)
        c = rng.random()
        text = rng.choice(corp) if c < 0.25 else WE.random_expr(rng) if c < 0.7 else WT.gen_text(rng, max_depth=3, equations=0)
        try:
            root = D.parse(text)
        except Exception:
            continue
        if S.kind(root) == "Equal" or S.size(S.shadow(root)) > 80:
            continue
        check_alike(rec, rng, root)
        check_alike_results(rec, rng, root)
        drive_predicates(rec, rng, root)
        if rng.random() < 0.01:
            rec.sample({"expression": text[:100]})


def replay(rec, cfg, w):
    attach_util()
    rng = cfg.rng("replay")
    if "start" in w:
        for i in range(400):
            after_rewrites_inside_terms(rec, cfg.rng(f"replay{i}"))
    elif w.get("deep_sums"):
        deep_sums(rec)
    elif "n" in w:
        check_factor(rec, w["n"])
        if w.get("edited_first_result") and w["n"] % 3:
            check_factor(rec, w["n"] * 3)
    elif "terms" in w:
        import mathy_core.util as U

        def ask(text, k):
            if text.endswith("[equal addends are one shared node object]"):
                from mathy_core import expressions as E

                objs, shared = {}, None
                for tx in w["terms"]:
                    objs.setdefault(tx, D.parse(tx))
                    shared = objs[tx] if shared is None else E.AddExpression(shared, objs[tx])
                return U.has_like_terms(shared)
            mark = "   [some + - * nodes"
            if mark not in text:
                return U.has_like_terms(D.parse(text))
            root = D.parse(text.split(mark)[0])
            # (which nodes were subclass instances is not recorded: a few assignments are tried)
            outs = {bool(U.has_like_terms(with_user_subclasses(root, cfg.rng(f"replay{k}{j}")))) for j in range(12)}
            return outs.pop() if len(outs) == 1 else "differs between assignments of the subclasses"

        a, b = ask(w["a"], 0), ask(w["b"], 1)
        rec.ev()
        if a != b:
            rec.violation("C16", "like-terms/order-or-grouping", "has_like_terms depends on the order or grouping of the added terms", dict(w))
    elif "tree" in w:
        root = S.build(S.from_json(w["tree"]))
        check_alike(rec, rng, root)
        check_alike_results(rec, rng, root)
        drive_predicates(rec, rng, root)
    elif "text" in w:
        t = w["text"]
        import re

        m = re.match(r"^(-?[0-9.]*)([A-Za-z]?)(?:\^(-?[0-9.]+))?$", t)
        if m:
            check_term_ex(rec, rng, m.group(1), m.group(2), m.group(3) or "")
