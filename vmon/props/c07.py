"""C07 -- rewritten trees are structurally sound and leave the untouched context intact."""
from .. import core
from ..monitors import rules as MR
from ..oracles import shadow as S
from ..workloads import drive as D
from . import _rulecommon as RC
from .c06 import odd_trees

MANIFEST = dict(
    technique="runtime contract on apply_to (entry shadow + path, exit link/arity audit, positional comparison of every subtree hanging off the path to the rewritten node, variable set) and on the search-agent step clone_from_root+apply_to (identity shadow of the original before/after, object disjointness)",
    text="Every rule application is audited at exit: root without parent, mutually consistent parent/child links, no node object reached twice, arity of every operator, unchanged variable set, and every subtree off the path root..parent(node) (grandparent for the rotation rule) structurally identical and in the same place; the harness step (ask can_apply_to on the live node, clone from the root, apply to the clone -- the search-agent pattern) additionally decides that the tree the copy was cloned from is bit-for-bit unchanged and shares no node with the result; in-place chains apply several rules to one evolving tree object. Long episodes expose dangling pointers and aliased subtrees on later steps. Held on the applications observed.",
    note="Trusts our link audit and shadows. For balanced move (which restructures both sides) the positional context clause is replaced by audit + variable set + original-unmodified.",
    ref="DESIGN.md 3/C07",
)
RULE = (
    "Start trees as for C01 plus constructor-built trees; every rule instance applied (to clone_from_root) at up to 6 matches "
    "per tree and again on rewritten trees, plus episodes of 10-40 steps.  distinct non-trivial = (rule, arm, input tree, "
    "node) whose tree changed and passed/failed the audit and context comparison."
)
ASSUMPTIONS = ["neighbourhood of a rewrite = the node (and its parent for the rotation rule); everything off the path above it must be positionally identical"]
SHARDS = {"quick": 8, "thorough": 16}
DEADLINE = {"quick": 55, "thorough": 480}


def REQUIRED(tier):
    req = RC.required_apply_arms(2)
    req.update({"audit:run": 3000, "context:subtrees-compared": 3000, "original:checked": 3000, "episodes": 10, "root-query:after-apply": 3000})
    return req


def run(rec, cfg):
    rec.accept = {"structure"}
    MR.CHECKS.update({"structure"})
    MR.attach_apply()
    rng = cfg.rng("c07")
    from ..workloads import interrupted as _INT

    if cfg.shard == 6 % cfg.nshards:
        _INT.balanced_move_cases(rec, "C07")      # the rule that clones before it rewrites, cut short: source, snapshots and later moves
    rules = RC.with_flippers(MR.rule_instances())
    n = cfg.scale(200, 25000)
    if cfg.shard == 0:
        for t in odd_trees(rng):
            rec.arm("start:constructed")
            D.apply_everywhere(rec, t, rules, rng, cap=8, check_original=True)
    # one piece used several times: parse() hands out its cached tree, so callers clone a parsed
    # piece before re-using it, and clone() keeps the ids -- "add 2x to both sides" gives an
    # equation whose two 2x subtrees carry the same ids (as do the two copies distribute makes)
    from ..workloads import exprs as WE

    bm = [(l, r) for l, r in rules if l in ("BM", "CS", "AG", "DF")]
    for i in range(cfg.scale(25, 2500)):
        f = WE.Filler(rng)
        piece = f.fill(rng.choice(["{c}{v}{e}", "{k}{v}", "{k}", "{v}", "({v} + {k})", "{k}{v} * {w}"]))
        text = rng.choice(["{a} + {p} = {b} + {p}", "{p} + {a} = {p} + {b}", "{a} + {p} + {p} = {b}", "{a} = {p} + {b} + {p}", "{p} + {a} = {b} + {p} + {t}"])
        text = text.format(a=f.t(), b=f.k(), p=piece, t=f.t())
        try:
            want = S.vshadow(D.parse(piece))
        except Exception:
            continue

        def build():
            root = RC.parse_start(text)
            if root is None or S.kind(root) != "Equal":
                return None
            twins = [m for m in S.nodes_preorder(root) if S.vshadow(m) == want]
            if len(twins) < 2:
                return None
            for other in twins[1:]:
                for a_, b_ in zip(S.nodes_preorder(twins[0]), S.nodes_preorder(other)):
                    b_.id = a_.id
            return root

        root = build()
        if root is None:
            continue
        rec.arm("start:one-piece-cloned-into-several-places")
        for label, idx, new_root in D.apply_everywhere(rec, root, bm, rng, cap=6, check_original=True):
            if new_root is not None and rng.random() < 0.3:
                D.apply_everywhere(rec, new_root, bm[:1], rng, cap=3, check_original=True)
        # the same applications made directly on the listed node (the rules are in-place
        # operations; balanced move clones the equation itself), each on a tree built anew
        for label, rule in bm:
            try:
                count = len(rule.find_nodes(root))
            except Exception:
                continue
            for j in range(min(count, 6)):
                t = build()
                if t is None:
                    break
                try:
                    nodes = rule.find_nodes(t)
                    if j < len(nodes):
                        rule.apply_to(nodes[j])
                        rec.arm("apply:in-place-on-a-tree-with-cloned-pieces")
                except (Exception, RecursionError):
                    pass
    k = 0
    if cfg.shard == 5 % cfg.nshards:
        RC.wide_ints(rec, rules)
    for src, text, hints in RC.start_texts(cfg, rng, n, equations=0.25):
        if cfg.out_of_time():
            rec.truncated = True
            break
        big = src == "big-text"
        root = RC.parse_start(text, allow_big=big)
        rules = RC.flip(rules, rng)
        use = RC.rules_for(src, rules)
        if root is None:
            continue
        rec.arm("start:" + src)
        if src in ("arm-text", "edge-text", "near-text") and D._small(root, 25):
            D.inplace_pairs(rec, root, use, rng)
        if rng.random() < 0.3:
            D.inplace_chain(rec, root, use, rng, steps=rng.randint(2, 6), big=big)
        k += 1
        if k % 4 == 0 and not big:
            # episode: dangling parent pointers / aliased subtrees show up on later steps
            ep = D.Episode(root, rng, policy=rng.choice(["balanced", "novelty"]))
            for _ in range(rng.randint(10, 40)):
                r = ep.next(rec, rules)
                if not r or D.too_big(S.shadow(ep.root)):
                    break
            rec.arm("episodes")
            rec.arm("episode-steps", len(ep.steps))
            bad = ep.earlier_states_intact()
            rec.ev()
            if bad is not None:
                rec.violation("C07", "original-modified/episode", "an earlier state of an episode was modified by a later step",
                              {"start": text, "steps": ep.steps, "state": bad,
                               "summary": f"episode from '{text}' steps {ep.steps[:12]}: state {bad} changed afterwards"})
            continue
        frontier = [root]
        for depth in range(3):
            nxt = []
            for r in frontier:
                for label, idx, new_root in D.apply_everywhere(rec, r, use, rng, cap=6 if depth == 0 else 2, check_original=True):
                    if new_root is not None and not D.too_big(S.shadow(new_root), big):
                        nxt.append(new_root)
            if not nxt:
                break
            frontier = rng.sample(nxt, min(len(nxt), 2))
        if rng.random() < 0.02:
            rec.sample({"source": src, "start": text[:120]})


def replay(rec, cfg, w):
    if "failpoint" in w:
        from ..workloads import interrupted as _INT

        _INT.balanced_move_cases(rec, "C07")      # deterministic: the whole family of cases is run again
        return
    MR.CHECKS.update({"structure"})
    MR.attach_apply()
    if "tree" in w and "rule" in w:
        root = S.build(S.from_json(w["tree"]))
        D.step(rec, S.nodes_inorder(root)[w["node_index"]], MR.make_rule(w["rule"]), check_original=True)
    elif "start" in w:
        root = D.parse(w["start"])
        ep = D.Episode(root, cfg.rng("r"))
        for label, idx in w["steps"]:
            node = S.nodes_inorder(ep.root)[idx]
            nr = D.step(rec, node, MR.make_rule(label))
            if nr is None:
                break
            ep.root = nr
            ep.states.append((nr, S.idshadow(nr)))
        bad = ep.earlier_states_intact()
        if bad is not None:
            rec.violation("C07", "original-modified/episode", "an earlier state of an episode was modified by a later step", dict(w))
