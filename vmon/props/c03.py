"""C03 -- text is read according to the documented grammar and order of operations."""
import random

from .. import core
from ..monitors import parse as MP
from ..oracles import refgrammar as G
from ..workloads import text as WT

MANIFEST = dict(
    technique='runtime monitor on ExpressionParser.parse vs independent reference recogniser + exact rational evaluator; grammar-directed and mutated text workload',
    text='Every parse() of a generated/corpus/mutated string (on a fresh parser, and for a sample also on one shared parser together with padding variants of the same string) is decided against a reference parser written from the documented grammar: same acceptance, same operand multiset, same literal types, same exact value at >= 10 assignments. Held on the strings observed (all grammar productions are required arms).',
    note='Trusts the reference grammar reading in DESIGN.md Appendix A, fractions.Fraction arithmetic and sampling of assignments.',
    ref='DESIGN.md 3/C03',
)

RULE = (
    "W1 corpus (rule example files, docs, tests), W3 grammar-directed random text over all productions, constant "
    "classes (0, 1, small, > 2^63, decimals, leading zeros, '.5', '1.') and exponent classes, W5 token soups and "
    "mutations (reject side), W2 generator output; every string parsed once on a fresh parser under the monitor on "
    "ExpressionParser.parse, which compares acceptance, operand multiset, literal types and exact values (>= 10 "
    "assignments) with an independent reference recogniser/evaluator written from the documented grammar.  distinct "
    "non-trivial = accepted string with >= 2 operators whose values were compared, or a rejected string of length >= 2."
)
ASSUMPTIONS = [
    "reference grammar = DESIGN.md Appendix A (docstring grammar + the property statement): left-associative + - * /, "
    "one ^ per ExpExp and one per factor run binding to the last factor, '-' directly before a literal is part of the literal",
    "values compared exactly with Fractions at sampled assignments (non-integer exponents: positive bases, 1e-9 relative)",
    "bounds: <= 200 tokens (a dozen fixed long inputs up to 700 tokens), nesting <= 30, literals <= 60 digits",
]
SHARDS = {"quick": 8, "thorough": 16}
DEADLINE = {"quick": 50, "thorough": 420}
PRODS = ["equal", "add+", "add-", "mult*", "mult/", "exp^", "negative-literal", "factorial", "coefficient*factors", "function",
         "parens", "implicit-product", "factor^", "factors^last", "negate"]


def REQUIRED(tier):
    req = {"grammar:ref-accepts": 1000, "grammar:value-agree": 800, "grammar:ref-rejects:reject": 200,
           "grammar:ref-rejects:badnumber": 5, "grammar:ref-rejects:badchar": 20}
    for p in PRODS:
        req["prod:" + p] = 20
    return req


def strings(cfg, rng):
    corp = WT.corpus()
    from . import _rulecommon as RC

    for i, s in enumerate(RC.long_texts() + RC.huge_token_texts()):
        if cfg.mine(i):
            yield "long", s
    for i, s in enumerate(corp):
        if cfg.mine(i):
            yield "corpus", s
    # letter runs around the one function name: other cases, prefixes, extensions (all of them are
    # products of one-letter variables, case-sensitive)
    near = ["SGN(x)", "Sgn(x) + 1", "sGn", "2sgN^2", "sgN(4)", "SGN", "sg(x)", "sgnn(x)", "xsgn(x)", "sgnx", "s gn(x)", "sgn (x)", "sign(x)", "Sgn", "sgnSGN", "sgn(SGN)",
            "X + x", "xX", "aA * Aa", "Z^z", "sgn(X) + sgn(x)"]
    for i, s in enumerate(near + [t.swapcase() for t in corp if "sgn" in t][:20]):
        if cfg.mine(i):
            yield "near-function-name", s
    # generator output (W2)
    from mathy_core import problems as P

    st = random.getstate()
    try:
        random.seed(cfg.seed * 1000 + cfg.shard)
        for i in range(cfg.scale(40, 600)):
            P.use_pretty_numbers(i % 2 == 0)
            g = rng.choice([
                lambda: P.gen_simplify_multiple_terms(rng.randint(2, 8)), lambda: P.gen_binomial_times_binomial(),
                lambda: P.gen_binomial_times_monomial(), lambda: P.gen_commute_haystack(),
                lambda: P.gen_move_around_blockers_one(rng.randint(1, 4)), lambda: P.gen_move_around_blockers_two(rng.randint(1, 4)),
                lambda: P.gen_combine_terms_in_place(4, 12),
            ])
            try:
                yield "problems", g()[0]
            except Exception:
                pass
    finally:
        P.use_pretty_numbers(True)
        random.setstate(st)
    n = cfg.scale(3500, 90000)
    for i in range(n):
        c = rng.random()
        if c < 0.55:
            yield "grammar", WT.gen_text(rng, max_depth=rng.choice([2, 3, 3, 4]))
        elif c < 0.70:
            yield "grammar-small", WT.gen_text(rng, max_depth=2, exps="small", big=False)
        elif c < 0.85:
            yield "mutation", WT.mutate(rng, WT.gen_text(rng, max_depth=3) if rng.random() < 0.6 else rng.choice(corp), foreign=0.03)
        elif c < 0.93:
            yield "soup", WT.soup(rng, rng.randint(1, 9), foreign=0.01)
        elif c < 0.97:
            yield "nested", WT.nested(rng, rng.randint(3, 25))
        else:
            a, b, c3 = (rng.choice(["2", "8", "x", "3y", "(a + 1)", "4.5", "z^2"]) for _ in range(3))
            yield "assoc", f"{a} {rng.choice('/*-+')} {b} {rng.choice('/*-+')} {c3}"


def scribbled_tokens(rec):
    """token lists handed out are the caller's, the Token objects in them included: a caller that post-processes
    them in place (turns '-' into '+', renames a variable, blanks the end marker) must not change how the next
    text is read by anybody -- the parses that follow are decided by the grammar monitor like all others"""
    from mathy_core.parser import ExpressionParser
    from mathy_core.tokenizer import Tokenizer, TOKEN_TYPES

    texts = ["a - b", "7 - 2 * (x + 1) / 4 ^ 2 = 3!", "[p] - -q", "sgn(-4) + 10 - x - 1"]
    checks = ["7 - 2", "10 - x - 1", "-3", "2 * (x + 4) / 5", "a = b ^ 2", "4! + [y]", "sgn(x) - 1", "x - -y"]
    for source in (lambda t: Tokenizer().tokenize(t), lambda t: ExpressionParser().tokenize(t), lambda t: Tokenizer(exclude_padding=False).tokenize(t)):
        for t in texts:
            try:
                toks = source(t)
            except Exception:
                continue
            for i, tk in enumerate(toks):
                tk.value, tk.type = ("+", TOKEN_TYPES.Plus) if i % 2 == 0 else ("z", TOKEN_TYPES.Variable)
            rec.arm("grammar:token-objects-edited-by-the-caller")
            for c in checks + [t]:
                try:
                    ExpressionParser().parse(c)
                except Exception:
                    pass


def run(rec, cfg):
    from mathy_core.parser import ExpressionParser

    MP.attach_parser("C03", {"grammar"})
    rng = cfg.rng("c03")
    from ..workloads import interrupted as _INT

    if cfg.shard == 5 % cfg.nshards:
        scribbled_tokens(rec)
    if cfg.shard == 6 % cfg.nshards:
        _INT.parser_cases(rec, "C03")      # a parse cut short (Ctrl-C, MemoryError), then valid parses: still exactly the grammar
        from . import c12 as _c12

        _c12.retry_with_more_stack(rec, prop="C03")
    from ..workloads import histories as W8
    from ..workloads import text as _WT

    W8.two_parsers(rec, rng, _WT.corpus(), "C03", cfg.scale(6, 200))
    if cfg.shard == 2 % cfg.nshards:
        W8.marathon(rec, rng, "C03", altered_key="grammar/earlier-result-altered")
    if cfg.shard == 3 % cfg.nshards:
        W8.typed(rec, rng, W8.TYPED_TEXTS)
    bigrams = set()
    for src, s in strings(cfg, rng):
        if cfg.out_of_time():
            rec.truncated = True
            break
        if len(s) > 1500 and src != "long":
            continue
        rec.arm("workload:" + src)
        try:
            toks = G.ref_tokenize(s, keep_padding=False)
            if len(toks) > 200 and src != "long":
                continue
            for a, b in zip(toks, toks[1:]):
                bigrams.add((a[0], b[0]))
        except G.BadChar:
            pass
        try:
            tree = ExpressionParser().parse(s)
            out = str(tree)
        except Exception as e:
            out = type(e).__name__
        if rng.random() < 0.12 and s:
            # the same decision on a parser that has already read near-identical strings: padding
            # removed, and padding inserted at a random position (inside a number, inside 'sgn')
            shared = ExpressionParser()
            i = rng.randrange(len(s) + 1)
            variants = [s, s.replace(" ", ""), s[:i] + " " + s[i:], s]
            rng.shuffle(variants)
            for v in variants:
                rec.arm("workload:shared-parser-variant")
                try:
                    shared.parse(v)
                except Exception:
                    pass
        if rng.random() < 0.003:
            rec.sample({"source": src, "text": s[:100], "implementation": out[:100]})
    rec.notes["token_bigrams_seen"] = len(bigrams)


def replay(rec, cfg, w):
    if "failpoint" in w:
        from ..workloads import interrupted as _INT

        _INT.parser_cases(rec, "C03")      # deterministic: the whole family of cases is run again
        return
    if w.get("marathon") or any(isinstance(h, (list, tuple)) and len(h) > 1 and str(h[1]).endswith("w + 1") for h in (w.get("history") or [])[-50:]):
        from ..workloads import histories as _W9

        MP.attach_parser("C03", {"grammar", "closure", "history"})
        _W9.marathon(rec, cfg.rng("replay-marathon"), "C03")
        return
    if w.get("two_parsers"):
        from ..workloads import histories as _W8
        from ..workloads import text as _WT2

        MP.attach_parser("C03", {"grammar", "closure"})
        _W8.two_parsers(rec, cfg.rng("replay-two"), _WT2.corpus(), "C03", 40)
        return
    from mathy_core.parser import ExpressionParser

    MP.attach_parser("C03", {"grammar"})
    scribbled_tokens(rec)      # (cheap and deterministic: the edited-token history runs before the replayed text)
    try:
        ExpressionParser().parse(w["text"])
    except Exception:
        pass
