"""C11 -- tokenizing is lossless, total and faithful to character classes."""
from .. import core
from ..monitors import parse as MP
from ..workloads import text as WT

MANIFEST = dict(
    technique='runtime monitor on Tokenizer.tokenize vs independent reference tokenizer + LINE-event step budget; soup/mutation workload',
    text='Each tokenize() call on tens of thousands of hostile strings (both padding modes) is compared token by token with a reference tokenizer, and checked for losslessness, the single end marker, ValueError on foreign characters and a deterministic step budget. Held on the strings observed.',
    note='Trusts the reference tokenizer (25 lines, DESIGN.md Appendix A) and sys.monitoring line counting.',
    ref='DESIGN.md 3/C11',
)

RULE = (
    "W5 token soups over the tokenizer alphabet (+ foreign/Unicode/control characters), mutations of corpus and "
    "grammar-generated strings, long digit/letter/space runs, letter runs around 'sgn'; every string tokenized in both "
    "padding modes.  The monitor on Tokenizer.tokenize compares each result (or exception) with an independent reference "
    "tokenizer, checks losslessness, the single trailing end marker, ValueError on unsupported characters and a logical "
    "step budget.  distinct non-trivial = (string, padding mode) with >= 2 tokens besides the end marker, or a rejected "
    "string of length >= 2."
)
ASSUMPTIONS = ["reference tokenizer (vmon/oracles/refgrammar.py) is our reading of the documented character classes",
               "step budget 2000*(len+10) LINE events stands for termination"]
SHARDS = {"quick": 8, "thorough": 16}
DEADLINE = {"quick": 40, "thorough": 400}
REQUIRED = {
    "tok:pad:ok": 500, "tok:nopad:ok": 500, "tok:pad:rejected-char": 50, "tok:nopad:rejected-char": 50,
    "tok:via-parser:pad": 300, "tok:via-parser:nopad": 300, "toktype:F": 20, "tok:settings-changed-between-calls": 200, "tok:handed-out-tokens-scribbled-on": 100, "toktype:P": 100, "toktype:C": 100, "toktype:V": 100, "toktype:!": 20, "toktype:=": 20,
}


def strings(cfg, rng):
    corp = WT.corpus()
    n = cfg.scale(8000, 120000)
    for i, s in enumerate(corp):
        if cfg.mine(i):
            yield s
    if cfg.shard == 0:
        yield from ["", " ", "sgn", "sgn(", "sgnsgn", "Sgn(x)", "sgn x", "xsgn(y)", "sg n", "s", "1" * 300, "a" * 300, " " * 300, "1.2.3", "..", ".",
                    "9" * 60 + "." + "9" * 60, "–", "[", "]", "–[x]–", "x\ty\rz\nw", "1e5", "2E3", "٣", "x٣", "π", "x_y", "\x00", "a\x0b", " ", " x",
                    "－", "−x", "x²", "１２", "ⅷ", "x y z", "4x^2+2x", "((()))", "!!!", "===", "sgn" * 50, ("x+" * 200) + "x"]
    for i in range(n):
        c = rng.random()
        if c < 0.35:
            yield WT.soup(rng, foreign=0.02)
        elif c < 0.45:
            yield WT.soup(rng, rng.randint(15, 60), foreign=0.0)
        elif c < 0.65:
            yield WT.mutate(rng, rng.choice(corp))
        elif c < 0.85:
            yield WT.gen_text(rng)
        elif c < 0.93:
            yield WT.mutate(rng, WT.gen_text(rng), foreign=0.3)
        elif c < 0.96:
            # long runs: a token may be arbitrarily long
            n1 = rng.choice([rng.randint(33, 120), rng.randint(33, 120), 255, 256, 257, 511, 512, 513, 600, 1023, 1025, 1500, 4097])
            kind = rng.random()
            if kind < 0.4:
                yield rng.choice(["", "x+", "2*"]) + "".join(rng.choice("0123456789") for _ in range(n1)) + rng.choice(["", ".5", "x", " + 1"])
            elif kind < 0.8:
                pre = "".join(rng.choice("abxyzq") for _ in range(rng.choice([29, 30, 31, 32, 33, 61, 64, 65, 255, 256, 509, 510, 511, 512, 513, 1021, 1024, 4093])))
                yield pre + rng.choice(["sgn", "sgn(x)", "sg", "sgnn"]) + rng.choice(["", "(x)", " "])
            else:
                yield "x" + " " * n1 + "+" + "\t" * rng.randint(1, 40) + "y"
        elif c < 0.975:
            # characters that str.strip()/str.split()/str.isspace() treat as blanks but the alphabet does not have, at the ends
            ws = rng.choice(["\xa0", "\x0c", "\x0b", "\x1c", "\x1d", "\x1e", "\x1f", "\x85", "\u2003", "\u2028", "\u2029", "\u3000", "\u1680", "\u202f", "\ufeff", "\u200b"])
            base = rng.choice(corp) if rng.random() < 0.5 else WT.gen_text(rng)
            yield rng.choice([base + ws, ws + base, ws + base + ws, " " + base + ws, base + " " + ws, ws, base + ws * 3])
        else:
            k = rng.choice(["s", "sg", "sgn", "sgnn", "ssgn", "gn", "SGN", "sgN"])
            yield rng.choice(["", "x", "2", "(", " "]) + k + rng.choice(["", "(", "(x)", "x", " (x)", "2"])


def run(rec, cfg):
    from mathy_core.tokenizer import Tokenizer

    MP.attach_tokenizer("C11")
    rng = cfg.rng("c11")
    toks = {True: Tokenizer(exclude_padding=True), False: Tokenizer(exclude_padding=False)}
    try:
        # the documented signature is Tokenizer(exclude_padding=True): the mode given positionally is the same request
        toks_pos = {True: Tokenizer(True), False: Tokenizer(False)}
    except Exception:
        toks_pos = {}
        rec.violation("C11", "tok/constructor", "the documented constructor call Tokenizer(<bool>) raises", {"text": "", "summary": "Tokenizer(True) / Tokenizer(False) raised"})
    # one more long-lived instance whose public settings change between calls on the same text:
    # the padding switch is flipped and a function name is registered / removed again
    from mathy_core.expressions import AbsExpression, SgnExpression

    flip = Tokenizer()
    classes = set()
    # the parser's own tokenize() is the second public way to the same job (it adds a text-keyed cache):
    # one long-lived parser per padding mode, and a new one now and then
    from mathy_core.parser import ExpressionParser

    parsers = {True: ExpressionParser(), False: ExpressionParser()}
    parsers[False].tokenizer.exclude_padding = False
    plain_ptok = getattr(ExpressionParser.tokenize, "__vmon_original__", ExpressionParser.tokenize)
    plain_pparse = getattr(ExpressionParser.parse, "__vmon_original__", ExpressionParser.parse)

    def via_parser(p, s, keep):
        try:
            res, exc = plain_ptok(p, s), None
        except BaseException as e:
            res, exc = None, e
        rec.arm("tok:via-parser:" + ("pad" if keep else "nopad"))
        MP.check_tokens("C11", s, keep, res, exc)

    class WideTokenizer(Tokenizer):
        """a caller's own tokenizer: Greek letters are letters, '_' may group digits (the two predicates are the
        documented extension points).  Whatever it accepts, the stock class goes on rejecting."""

        def is_alpha(self, c):
            return super().is_alpha(c) or ("\u03b1" <= c <= "\u03c9")

        def is_number(self, c):
            return super().is_number(c) or c == "_"

    wide = WideTokenizer()
    wide._vmon_skip = True
    plain_tok = getattr(Tokenizer.tokenize, "__vmon_original__", Tokenizer.tokenize)

    for n_s, s in enumerate(strings(cfg, rng)):
        if n_s % 5 == 0:
            # the subclass reads a text with its extra characters (and the current string), then the stock
            # tokenizers read theirs as ever: decided below like every other call
            for t in ("2\u03b1 + 1_000", "\u03b2x", s[:40]):
                try:
                    plain_tok(wide, t)
                except Exception:
                    pass
            rec.arm("tok:a-subclass-with-wider-character-classes-works-alongside")
            for t in ("2\u03b1 + x", "1_000", "\u03b2", "x_1"):
                for tk in toks.values():
                    try:
                        tk.tokenize(t)
                    except Exception:
                        pass
        if cfg.out_of_time():
            rec.truncated = True
            break
        if n_s % 3 == 0 or (s and (not s[0].isascii() or not s[-1].isascii() or s[0].isspace() or s[-1].isspace() or s[0] < " " or s[-1] < " ")):
            for keep in (False, True):
                via_parser(parsers[not keep], s, keep)
                if n_s % 2:
                    via_parser(parsers[not keep], s, keep)      # again: served from the cache
            if n_s % 7 == 0:
                via_parser(ExpressionParser(), s, False)
            if n_s % 4 == 0:
                # the parser's other use of the same token stream: the text is parsed (successfully or not), then
                # tokenized again through the same parser
                try:
                    plain_pparse(parsers[True], s)
                except BaseException:       # noqa: BLE001
                    pass
                rec.arm("tok:via-parser:after-a-parse-of-the-same-text")
                via_parser(parsers[True], s, False)
        for a, b in zip(s, s[1:]):
            classes.add((MP.char_class(a), MP.char_class(b)))
        if n_s % 6 == 1:
            for excl, t in toks_pos.items():
                try:
                    t.tokenize(s)
                except Exception:
                    pass
            rec.arm("tok:mode-given-positionally")
        outs = {}
        for excl, t in toks.items():
            try:
                outs[excl] = MP.tok_tuples(t.tokenize(s))
            except ValueError:
                outs[excl] = "ValueError"
            except Exception as e:
                outs[excl] = type(e).__name__
        if rng.random() < 0.25:
            longname = rng.choice(["inversehyperbolicsine", "a" * 17, "abcdefghijklmnopqrstuvwxyzabcdefg", "f", "floor", "z" * 64, "absolutevalueofthe"])
            seq = [("fn+", longname), ("pad", True), ("fn-", longname), ("pad", True), ("pad", False), ("fn+", "abs"), ("pad", True), ("fn-", "abs"), ("pad", False), ("table", True), ("table", False), ("copy", None)]
            rng.shuffle(seq)
            for op, arg in seq[: rng.randint(2, 6)]:
                if op == "pad":
                    flip.exclude_padding = arg
                elif op == "table":
                    # the whole table is replaced by a new dict (with / without the extra name)
                    flip.functions = dict({"sgn": flip.functions.get("sgn", SgnExpression)}, **({"abs": AbsExpression} if arg else {}))
                    flip._vmon_funcs = {"sgn": "Sgn", "abs": "Abs"} if arg else {"sgn": "Sgn"}
                elif op == "copy":
                    # a deep copy takes over: its table is its own
                    import copy as _copy

                    was = dict(getattr(flip, "_vmon_funcs", {"sgn": "Sgn"}))
                    flip = _copy.deepcopy(flip)
                    flip._vmon_funcs = was
                    if rng.random() < 0.5:
                        flip.functions["abs"] = AbsExpression
                        flip._vmon_funcs = dict(was, abs="Abs")
                elif op == "fn+":
                    flip.functions[arg] = AbsExpression
                    flip._vmon_funcs = dict(getattr(flip, "_vmon_funcs", {"sgn": "Sgn"}), **{arg: "Abs"})
                else:
                    flip.functions.pop(arg, None)
                    flip._vmon_funcs = {k: v for k, v in getattr(flip, "_vmon_funcs", {"sgn": "Sgn"}).items() if k != arg}
                rec.arm("tok:settings-changed-between-calls")
                for t in (s, s.replace("sgn", "abs") if "sgn" in s else "abs(" + s[:12] + ")", longname + "(" + s[:8] + ")", "2" + longname + " + " + longname[:-1]):
                    try:
                        flip.tokenize(t)
                    except Exception:
                        pass
            # while the name is still registered on `flip`, every OTHER instance (the two long-lived
            # ones and a brand-new one) must go on reading the run as single-letter variables
            if "abs" in flip.functions:
                rec.arm("tok:other-instances-while-a-name-is-registered-elsewhere")
                for other in (toks[True], toks[False], Tokenizer()):
                    try:
                        other.tokenize("abs(" + s[:12] + ")")
                    except Exception:
                        pass
            flip.functions.pop("abs", None)
            flip.functions.pop(longname, None)
            flip._vmon_funcs = {"sgn": "Sgn"}
        if rng.random() < 0.15:
            # the tokens handed out by a Tokenizer are the caller's, attributes included: scribbled
            # on, then the same and other texts are tokenized again (by this and a new instance)
            for keep in (True, False):
                try:
                    got = toks[keep].tokenize(s)
                    for tk in got:
                        tk.value = "\u00d7"
                        tk.type = 0
                    rec.arm("tok:handed-out-tokens-scribbled-on")
                    toks[keep].tokenize(s)
                    Tokenizer(exclude_padding=keep).tokenize("4x * 2 - (y + 1) = [z / 3]^2")
                except Exception:
                    pass
        # relational law, directly on what the implementation returned
        if isinstance(outs[True], list) and isinstance(outs[False], list):
            rec.ev()
            if [t for t in outs[False] if t[0] != "P"] != outs[True]:
                rec.violation("C11", "tok/padding-relation", "dropping padding changes more than the whitespace tokens",
                              {"text": s, "summary": f"tokenize({s!r}): padding-off list != padding-on list minus Pad"})
        elif isinstance(outs[True], list) != isinstance(outs[False], list):
            rec.ev()
            rec.violation("C11", "tok/padding-relation", "the two padding modes disagree on acceptance",
                          {"text": s, "summary": f"tokenize({s!r}): {outs[True] if not isinstance(outs[True], list) else 'ok'} vs {outs[False] if not isinstance(outs[False], list) else 'ok'}"})
        if rng.random() < 0.002:
            rec.sample({"text": s[:80], "tokens_nopad": outs[True][:12] if isinstance(outs[True], list) else outs[True]})
    rec.notes["char_class_bigrams_seen"] = len(classes)
    rec.notes["budget_high_water_lines"] = MP.budget().high_water


def replay(rec, cfg, w):
    from mathy_core.tokenizer import Tokenizer

    class WideTokenizer(Tokenizer):
        def is_alpha(self, c):
            return super().is_alpha(c) or not c.isascii()

        def is_number(self, c):
            return super().is_number(c) or c == "_"

    try:
        WideTokenizer().tokenize(w["text"])      # (a caller's subclass with wider character classes read the text before)
    except Exception:
        pass
    MP.attach_tokenizer("C11")
    from mathy_core.parser import ExpressionParser

    for excl in (True, False):
        try:
            Tokenizer(exclude_padding=excl).tokenize(w["text"])
        except Exception:
            pass
        p = ExpressionParser()
        p.tokenizer.exclude_padding = excl
        for i_ in (0, 1, 2):
            if i_ == 2 and excl:
                try:
                    p.parse(w["text"])
                except BaseException:       # noqa: BLE001
                    pass
            try:
                res, exc = p.tokenize(w["text"]), None
            except BaseException as e:
                res, exc = None, e
            MP.check_tokens("C11", w["text"], not excl, res, exc)
