"""C04 -- printing an expression and parsing it back preserves its meaning."""
import itertools

from .. import core
from ..monitors import rules as MR
from ..monitors import parse as MP
from ..oracles import shadow as S
from ..workloads import drive as D
from ..workloads import exprs as WE
from ..workloads import text as WT
from . import _rulecommon as RC

MANIFEST = dict(
    technique="print/re-parse monitor on every tree returned by ExpressionParser.parse and on every result root seen by the apply_to contract: str(tree) is parsed by a fresh parser and compared exactly (variables, exact rational values at >= 12 assignments, truth values for equations); culprit search names the parent/child pair whose parentheses are missing",
    text="Every tree the workloads obtain from the parser or from a rewrite (single steps on all arms and episodes up to 40 steps) is printed and read back; the two trees must have the same variables and the same exact value at every sampled assignment (printing may not round). A sweep produces every ordered parent/child operator pair by explicit parentheses and by one rewrite step. Held on the trees observed; the observed parent-kind x side x child-kind matrix is in the evidence.",
    note="Trusts the exact evaluator and the repository's parser as the reader (its grammar conformance is C03). Trees with AbsExpression (no text syntax) or non-finite constants are outside the property.",
    ref="DESIGN.md 3/C04",
)
RULE = (
    "W1 corpus, W3 grammar-directed text (accepted strings), an explicit-parentheses sweep over all operator pairs (binary x "
    "binary x side, unary x binary, power/factorial/function operands, negative literals in every slot), every rule instance "
    "applied at up to 6 matches and again on rewritten trees, and episodes of 10-40 steps.  distinct non-trivial = distinct "
    "printed text of a tree with >= 1 operator that was read back and compared."
)
ASSUMPTIONS = ["exact comparison (no tolerance): shortest-round-trip float printing must reproduce the constant",
               "AbsExpression and nan/inf constants are outside the property (quantifier: finite constants; abs has no syntax)"]
SHARDS = {"quick": 8, "thorough": 16}
DEADLINE = {"quick": 55, "thorough": 480}


def REQUIRED(tier):
    return {"print:checked:parse": 1500, "print:checked:rewrite": 3000, "print:checked:episode": 300,
            "printpair:Power/L/Negate": 5, "printpair:Power/L/Multiply": 5, "printpair:Power/L/Power": 5, "printpair:Power/R/Power": 5,
            "printpair:Negate/R/Negate": 5, "printpair:Negate/R/Power": 5, "printpair:Divide/R/Multiply": 5, "printpair:Divide/R/Divide": 5,
            "printpair:Negate/R/Factorial": 2, "printpair:Subtract/R/Add": 5, "printpair:Subtract/R/Subtract": 5, "printpair:Multiply/L/Add": 5}


OPS = ["+", "-", "*", "/", "^"]
ATOMS = ["x", "y", "2", "7", "0.5", "-3", "-x", "4!", "0!", "sgn(x)", "3y", "2x^2", "-2.5", "5^0", "-4^2", "x^2", "(-4)", "(-x)", "xy", "2(x + 1)"]


def sweep(rng):
    """explicit-parentheses texts covering every operator pair and unary slot"""
    out = []
    for o1, o2 in itertools.product(OPS, OPS):
        a, b, c = (rng.choice(ATOMS) for _ in range(3))
        out.append(f"({a} {o1} {b}) {o2} {c}")
        out.append(f"{a} {o2} ({b} {o1} {c})")
    for o in OPS:
        a, b = rng.choice(ATOMS), rng.choice(ATOMS)
        out += [f"-({a} {o} {b})", f"-({a} {o} {b})^2", f"(-({a} {o} {b}))^2", f"sgn({a} {o} {b})", f"({a} {o} {b})^-1", f"x^-({a} {o} {b})",
                f"y - -({a} {o} {b})", f"y / -({a} {o} {b})", f"-(-({a} {o} {b}))", f"2({a} {o} {b})", f"({a} {o} {b})({b} {o} {a})",
                f"({a} {o} {b}) = {b}", f"-({a}) {o} {b}", f"{a} {o} -({b})", f"{a} {o} -(-{b})", f"(({a} {o} {b})^2)^3", f"x^(({a} {o} {b})^2)"]
    out += ["-(4!)", "-(0!)", "-(5^0)", "-(0! * x)", "-(2^x)", "-(-4)", "-(-z)", "-(-(-z))", "(3y)^3", "(-x)^2", "x^(2^3)", "((5y^0)^0)^3", "(2^3)^2", "(x^2)^3",
            "((x^2)^3)^4", "2^(3^2)", "x^(-y)", "x^-(y * z)", "x^-(y + z)", "x^(-2)", "(x^-2)^-3", "a / (b * c)", "a / (b / c)", "a / -(b * c)", "a * -(b / c)",
            "(a / b) / c", "a - (b - c)", "a - (b + c)", "a - -(b + c)", "(4x)^2", "(4x^2)^3", "(-4x)^2", "(-4)^x", "-(4x)", "-(4 * x)", "(2x)(3y)", "2(3y)", "(2)(3)",
            "1 / 2x", "1 / (2x)", "1 / 2 * x", "(1 / 2)x", "x / 2y^2", "0.1 + 0.2", "1000000000000000000000 * 0.0000001", "123456789.123456789x", ".5x", "1.x",
            "sgn(-x)^2", "-sgn(x)^2", "(-sgn(x))^2", "sgn(x)!" if False else "sgn(x)", "4!^2", "(4!)^2", "-4!", "(-4)!" if False else "4! * 3!", "x = y = z", "(x)", "((x))", "-(x) = -(-(x))"]
    return out


def check_parsed(rec, text, big=False):
    """parse `text` on a fresh parser and run the print/re-parse oracle on the tree"""
    MR.new_lineage()
    try:
        root = D.parse(text)
    except Exception:
        return None
    sh = S.shadow(root)
    if D.too_big(sh, big):
        return None
    rec.ev()
    try:
        printed = str(root)
    except Exception as e:
        rec.violation("C04", "print/str-raises/" + type(e).__name__, "str() of a parsed tree raised",
                      {"text": text, "summary": f"str(parse({text!r})) raised {type(e).__name__}: {e}"})
        return root
    MR.check_print(rec, sh, printed, ("C04",), {"source_text": text}, origin="parse")
    return root


def run(rec, cfg):
    rec.accept = {"print"}
    MR.CHECKS.update({"print"})
    MR.attach_apply()
    rng = cfg.rng("c04")
    rules = MR.rule_instances()
    # sweep (partitioned) -- parse, print, and one rewrite step everywhere
    for rep in range(cfg.scale(1, 6)):
        for i, t in enumerate(sweep(cfg.grng("sweep", rep))):
            if not cfg.mine(i):
                continue
            root = check_parsed(rec, t)
            rec.arm("start:sweep")
            if root is not None:
                D.apply_everywhere(rec, root, rules, rng, cap=4)
    for i, t in enumerate(RC.long_texts()):
        if cfg.mine(i):
            check_parsed(rec, t)
            rec.arm("start:long-parse")
    n = cfg.scale(160, 25000)
    k = 0
    for src, text, hints in RC.start_texts(cfg, rng, n, equations=0.2):
        if cfg.out_of_time():
            rec.truncated = True
            break
        big = src == "big-text"
        use = RC.rules_for(src, rules)
        root = check_parsed(rec, text, big)
        if root is None:
            continue
        rec.arm("start:" + src)
        k += 1
        if src in ("arm-text", "edge-text", "near-text") and D._small(root, 25):
            D.inplace_pairs(rec, root, use, rng, first=6, second=4)
        MR.HINTS[:] = hints
        if k % 3 == 1:
            # in-place chain: the same node objects are printed, rewritten in place and printed again
            D.inplace_chain(rec, root, use, rng, steps=rng.randint(2, 6), big=big)
        if k % 4 == 0 and not big:
            ep = D.Episode(root, rng, policy=rng.choice(["balanced", "novelty"]))
            for _ in range(rng.randint(10, 40)):
                r = ep.next(rec, rules)
                if not r or D.too_big(S.shadow(ep.root)):
                    break
            rec.arm("print:checked:episode", len(ep.steps))
        else:
            frontier = [root]
            for depth in range(3):
                nxt = []
                for r in frontier:
                    for label, idx, new_root in D.apply_everywhere(rec, r, use, rng, cap=6 if depth == 0 else 2):
                        if new_root is not None and not D.too_big(S.shadow(new_root), big):
                            nxt.append(new_root)
                if not nxt:
                    break
                frontier = rng.sample(nxt, min(len(nxt), 2))
        MR.HINTS[:] = []
    # plain grammar text (many parent/child pairs from the parser alone)
    for i in range(cfg.scale(400, 40000)):
        if cfg.out_of_time():
            rec.truncated = True
            break
        t = WT.gen_text(rng, max_depth=rng.choice([2, 3, 4]))
        check_parsed(rec, t)
        rec.arm("start:grammar")
        if rng.random() < 0.01:
            rec.sample({"text": t[:100]})


def replay(rec, cfg, w):
    from ..oracles import printer as _PR

    _PR.USER_ROUTE[0] = True
    MR.CHECKS.update({"print"})
    MR.attach_apply()
    if "rule" in w and "node_index" in w:
        D.replay_apply(w)
    elif "source_text" in w:
        check_parsed(rec, w["source_text"])
    elif "tree" in w:
        sh = S.from_json(w["tree"])
        MR.check_print(rec, sh, str(S.build(sh)), ("C04",), {}, origin="replay")
