"""Runtime contracts attached from the harness to the repository's own classes.

`attach(owner, name, pre, post)` replaces the *class attribute* (or module attribute)
`owner.name` by a wrapper, so every call -- from a workload, from the repository's own
tests, or from inside another repository function -- goes through the monitor:

    snap = pre(*args, **kwargs)          # snapshot at entry (may return SKIP)
    result / exception  = original(...)
    post(snap, args, kwargs, result, exc)   # decided at exit, also on exceptional exit

Only the outermost call of one attachment is monitored (nested/recursive calls run the
original directly), evaluations are counted per attachment point, and zero evaluations
is reported as inconclusive by the properties that rely on the monitor.

icontract/deal were considered (DESIGN.md 1): they cannot observe exceptional exits and
cannot be told "outermost call only", both of which these monitors need, so the wrapper
below is used instead; it needs nothing installed.
"""
import functools
from collections import Counter

SKIP = object()
EVALS = Counter()
_ATTACHED = []


class _Mon:
    __slots__ = ("depth",)

    def __init__(self):
        self.depth = 0


def attach_hierarchy(base, name, **kw):
    """attach(...) on `base` and on every already-loaded subclass that defines `name` itself: an
    override in a subclass (which typically calls super()) must not slip past the monitor.  All
    the attachment points share one nesting counter, so only the outermost call is decided."""
    mon = _Mon()
    out = []
    seen = set()
    stack = [base]
    while stack:
        cls = stack.pop()
        if cls in seen:
            continue
        seen.add(cls)
        stack.extend(cls.__subclasses__())
        if name in cls.__dict__ and not getattr(cls.__dict__[name], "__vmon_original__", None):
            out.append(attach(cls, name, _mon=mon, label=f"{base.__name__}.{name}", **kw))
    return out


SUSPENDED = [0]      # > 0: every monitor steps aside (the failpoint histories provoke their failures themselves)


class suspended:
    def __enter__(self):
        SUSPENDED[0] += 1

    def __exit__(self, *exc):
        SUSPENDED[0] -= 1
        return False


def attach(owner, name, pre=None, post=None, label=None, also=(), around=None, _mon=None):
    """Attach a monitor to owner.name; `also` lists (module, attr) namespaces that
    imported the same function by name and must be rebound too.

    `around(original, *args, **kwargs)` is the general form for monitors that must wrap
    an argument (e.g. a visitor callback) -- it calls the original itself."""
    orig = owner.__dict__[name] if isinstance(owner, type) else getattr(owner, name)
    raw = orig
    is_static = isinstance(orig, staticmethod)
    is_class = isinstance(orig, classmethod)
    if is_static or is_class:
        raw = orig.__func__
    label = label or f"{getattr(owner, '__name__', owner)}.{name}"
    mon = _mon or _Mon()

    @functools.wraps(raw)
    def wrapper(*a, **k):
        if mon.depth or SUSPENDED[0]:
            return raw(*a, **k)
        mon.depth += 1
        if around is not None:
            EVALS[label] += 1
            try:
                return around(raw, *a, **k)
            finally:
                mon.depth -= 1
        try:
            snap = pre(*a, **k) if pre is not None else None
        except BaseException:
            mon.depth -= 1
            raise
        try:
            res = raw(*a, **k)
        except BaseException as e:
            mon.depth -= 1
            if snap is not SKIP and post is not None:
                EVALS[label] += 1
                post(snap, a, k, None, e)
            raise
        mon.depth -= 1
        if snap is not SKIP and post is not None:
            EVALS[label] += 1
            post(snap, a, k, res, None)
        return res

    wrapper.__vmon_original__ = orig
    new = staticmethod(wrapper) if is_static else classmethod(wrapper) if is_class else wrapper
    setattr(owner, name, new)
    _ATTACHED.append((owner, name, orig))
    for mod, attr in also:
        if getattr(mod, attr, None) is orig:
            setattr(mod, attr, wrapper)
            _ATTACHED.append((mod, attr, orig))
    return wrapper


def detach_all():
    while _ATTACHED:
        owner, name, orig = _ATTACHED.pop()
        setattr(owner, name, orig)


def evaluations():
    return dict(EVALS)
