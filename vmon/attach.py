"""Attach the monitors that decide one property (used by the W0 pytest plugin, which runs
the repository's own tests as a workload with the monitors switched on)."""
from .monitors import rules as MR


def attach_for(prop):
    if prop == "C01":
        MR.CHECKS.update({"value"}); MR.attach_apply()
    elif prop == "C02":
        MR.CHECKS.update({"equation"}); MR.attach_apply()
    elif prop == "C04":
        MR.CHECKS.update({"print"}); MR.attach_apply()
    elif prop == "C06":
        MR.CHECKS.update({"apply"}); MR.attach_apply(); MR.attach_can(); MR.attach_find()
    elif prop == "C07":
        MR.CHECKS.update({"structure"}); MR.attach_apply()
    elif prop == "C09":
        MR.CHECKS.update({"value", "equation", "structure", "print"}); MR.attach_apply()
    elif prop == "C03":
        from .monitors import parse as MP
        MP.attach_parser("C03", {"grammar"})
    elif prop == "C10":
        from .monitors import parse as MP
        MP.attach_parser("C10", {"closure"})
    elif prop == "C11":
        from .monitors import parse as MP
        MP.attach_tokenizer("C11")
    elif prop == "C05":
        from .monitors import evalmon as ME
        ME.attach_evaluate("C05")
    elif prop == "C13":
        from .monitors import clonemon as MC
        MC.attach_clone("C13")
    elif prop == "C14":
        from .monitors import tree as MT
        MT.attach_visits("C14"); MT.attach_queries("C14")
    elif prop == "C15":
        from .monitors import tree as MT
        MT.attach_rotate("C15")
    elif prop == "C16":
        from .props import c16
        c16.attach_util()
    elif prop == "C17":
        from .props import c17
        c17.attach_generators()
    elif prop == "C18":
        from .props import c18
        c18.attach_layout("C18")
    else:
        return False
    return True


W0_PROPS = ["C01", "C02", "C03", "C04", "C05", "C06", "C07", "C10", "C11", "C13", "C14", "C15", "C16", "C17", "C18"]
