"""./check <Cxx> <quick|thorough> [--replay file]  -- parent process.

Spawns independent shard processes (subprocess, one per core, each with a timeout),
merges what their monitors observed, classifies violations against
known_findings.json, writes evidence/<id>.json and prints the verdict lines.

Exit codes: 0 held on everything observed (KNOWN-FINDING lines possible),
            1 VIOLATION, 2 INCONCLUSIVE (monitor not reached / too few observations /
              shard died or hit the wall-clock watchdog).
"""
import importlib
import json
import os
import subprocess
import sys
import time
from collections import Counter

from .core import h64

VERIF = os.path.dirname(os.path.dirname(os.path.abspath(__file__)))
PROPS = [f"C{i:02d}" for i in range(1, 19)]


def _env():
    env = dict(os.environ)
    env["PYTHONHASHSEED"] = os.environ.get("VERIF_HASHSEED", "0")
    env["PYTHONDONTWRITEBYTECODE"] = "1"
    env["PYTHONPATH"] = VERIF + os.pathsep + env.get("PYTHONPATH", "")
    env.setdefault("OMP_NUM_THREADS", "1")
    env.setdefault("OPENBLAS_NUM_THREADS", "1")
    env.pop("MATHY_CORE_VERIF", None)
    return env


def python():
    p = os.environ.get("VERIF_PYTHON", "/venv/bin/python")
    return p if os.path.exists(p) else sys.executable


def load_known():
    path = os.path.join(VERIF, "known_findings.json")
    if not os.path.exists(path):
        return []
    with open(path) as f:
        return json.load(f).get("findings", [])


def main(argv=None):
    argv = list(sys.argv[1:] if argv is None else argv)
    if not argv or argv[0] not in PROPS:
        print("usage: check <C01..C18> <quick|thorough> | check <Cxx> --replay <file>")
        return 64
    prop = argv[0]
    if len(argv) >= 3 and argv[1] == "--replay":
        return replay(prop, argv[2])
    tier = argv[1] if len(argv) > 1 else os.environ.get("VERIF_TIER", "quick")
    if tier not in ("quick", "thorough"):
        tier = "quick"
    seed = int(os.environ.get("VERIF_SEED", "0") or 0)
    return run(prop, tier, seed)


def run(prop, tier, seed):
    t0 = time.monotonic()
    mod = importlib.import_module(f"vmon.props.{prop.lower()}")
    ncpu = os.cpu_count() or 4
    nshards = int(os.environ.get("VERIF_SHARDS", 0) or 0) or getattr(mod, "SHARDS", {}).get(tier, min(ncpu, 16 if tier == "thorough" else 8))
    nshards = max(1, min(nshards, ncpu))
    deadline = getattr(mod, "DEADLINE", {}).get(tier, 45 if tier == "quick" else 420)
    watchdog = deadline * 3 + 120
    outdir = os.path.join(VERIF, ".run", f"{prop}-{tier}-{os.getpid()}")
    os.makedirs(outdir, exist_ok=True)
    procs = []
    for i in range(nshards):
        out = os.path.join(outdir, f"shard{i}.json")
        # interpreter configuration is part of the environment the code runs in: the last shard of
        # every check runs under `python -O` (assert statements stripped, __debug__ False);
        # VERIF_OPT=all / none overrides
        optmode = os.environ.get("VERIF_OPT", "last")
        opt = ["-O"] if (optmode == "all" or (optmode == "last" and nshards > 1 and i == nshards - 1)) else []
        cmd = [python()] + opt + ["-X", "faulthandler", "-m", "vmon.shard", prop, tier, str(seed), str(i), str(nshards), str(deadline), out]
        log = open(os.path.join(outdir, f"shard{i}.log"), "w")
        env = _env()
        if not os.environ.get("VERIF_HASHSEED"):
            # set/dict-of-str iteration order is part of the environment too: every shard gets its own
            # (deterministic) hash seed instead of one fixed order for all
            env["PYTHONHASHSEED"] = str((seed * 1009 + i * 7919) % 4294967295)
        procs.append((i, out, log, subprocess.Popen(cmd, cwd=VERIF, env=env, stdout=log, stderr=subprocess.STDOUT)))
    dead = []
    for i, out, log, p in procs:
        left = watchdog - (time.monotonic() - t0)
        try:
            rc = p.wait(timeout=max(1, left))
        except subprocess.TimeoutExpired:
            p.kill()
            p.wait()
            rc = "watchdog"
        log.close()
        if rc != 0 or not os.path.exists(out):
            dead.append((i, rc))
            try:
                with open(os.path.join(outdir, f"shard{i}.log")) as lf:
                    tail = lf.read()[-1500:]
                sys.stderr.write(f"--- shard {i} exited with {rc}; end of its log:\n{tail}\n")
            except Exception:
                pass
    # ---- merge
    merged = {
        "evaluations": 0, "counters": Counter(), "inconclusive": Counter(), "samples": [],
        "violations": {}, "other": Counter(), "notes": {}, "truncated": 0, "contract_evaluations": Counter(),
    }
    distinct = set()
    for i, out, log, p in procs:
        if not os.path.exists(out):
            continue
        with open(out) as f:
            d = json.load(f)
        merged["evaluations"] += d["evaluations"]
        merged["counters"].update(d["counters"])
        merged["inconclusive"].update(d["inconclusive"])
        merged["other"].update(d["other"])
        merged["contract_evaluations"].update(d.get("notes", {}).get("contract_evaluations", {}))
        for k, v in d.get("notes", {}).items():
            if k == "functions_executed":
                fe = merged["notes"].setdefault(k, {})
                for f, qs in v.items():
                    fe[f] = sorted(set(fe.get(f, [])) | set(qs))
            elif k in ("budget_high_water", "budget_high_water_lines", "max_steps_seen") and isinstance(v, (int, float)):
                merged["notes"][k] = max(merged["notes"].get(k, 0), v)
            elif k != "contract_evaluations":
                merged["notes"].setdefault(k, v)
        merged["truncated"] += 1 if d.get("truncated") else 0
        merged["samples"].extend(d["samples"][: max(2, 24 // nshards)])
        for key, v in d["violations"].items():
            m = merged["violations"].setdefault(key, {"count": 0, "what": v["what"], "witnesses": []})
            m["count"] += v["count"]
            m["witnesses"].extend(v["witnesses"])
        with open(out + ".distinct", "rb") as f:
            b = f.read()
        distinct.update(b[j:j + 8] for j in range(0, len(b), 8))
    # ---- classify violations
    known = [k for k in load_known() if k.get("property") == prop]
    open_keys = {k["key"]: k for k in known if k.get("status") == "open"}
    lines = []
    new = []
    known_hits = {}
    rpdir = os.environ.get("VERIF_REPLAY_DIR") or os.path.join(VERIF, "replays")
    os.makedirs(rpdir, exist_ok=True)
    for key, v in sorted(merged["violations"].items()):
        if key in open_keys:
            known_hits[key] = v
            w = v["witnesses"][0] if v["witnesses"] else {}
            eg = w.get("summary", "") if isinstance(w, dict) else ""
            lines.append(f"KNOWN-FINDING: property={prop} {key} {open_keys[key].get('what', v['what'])} ({v['count']} occurrences, e.g. {eg})")
        else:
            path = os.path.join(rpdir, f"{prop}-{tier}-{seed}-{h64(key).hex()[:10]}.json")
            with open(path, "w") as f:
                json.dump({"property": prop, "key": key, "what": v["what"], "count": v["count"], "witnesses": v["witnesses"]}, f, indent=1, default=str)
            new.append((key, v, path))
    # ---- thresholds
    reasons = []
    if dead:
        reasons.append(f"shards died or hit the watchdog: {dead}")
    required = getattr(mod, "REQUIRED", {})
    if callable(required):
        required = required(tier)
    for arm, minimum in required.items():
        got = merged["counters"].get(arm, 0)
        if got < minimum:
            reasons.append(f"arm {arm}: {got} < {minimum}")
    if merged["evaluations"] < 1:
        reasons.append("no monitor evaluation reached a verdict")
    if len(distinct) < getattr(mod, "MIN_DISTINCT", {}).get(tier, 2):
        reasons.append(f"distinct non-trivial cases {len(distinct)} below minimum")
    # ---- evidence
    fp = {}
    try:
        from . import load as L

        fp = L.fingerprint()
    except Exception as e:  # pragma: no cover
        fp = {"fingerprint_error": repr(e)}
    cov = {
        "evaluations": int(merged["evaluations"]),
        "distinct_nontrivial": len(distinct),
        "rule": getattr(mod, "RULE", ""),
        "samples": merged["samples"][:24],
        "arms": dict(sorted(merged["counters"].items())),
        "inconclusive": dict(sorted(merged["inconclusive"].items())),
        "known_findings": {k: {"count": v["count"], "first_witness": (v["witnesses"] or [None])[0]} for k, v in known_hits.items()},
        "new_violations": {k: v["count"] for k, v, _ in new},
        "other_property_diagnostics": dict(sorted(merged["other"].items())),
        "contract_evaluations": dict(sorted(merged["contract_evaluations"].items())),
        "shards": nshards,
        "shards_truncated_by_deadline": merged["truncated"],
        "inconclusive_reasons": reasons,
        "exhaustive": bool(getattr(mod, "EXHAUSTIVE", False)) and not merged["truncated"] and not dead,
    }
    fe = merged["notes"].pop("functions_executed", None)
    if fe is not None:
        anchors = set()
        try:
            for line in open(os.path.join(VERIF, "properties.jsonl")):
                pr = json.loads(line)
                if pr["id"] == prop:
                    anchors = {f[len("mathy_core/"):] for f in pr["anchors"]["files"] if f.startswith("mathy_core/") and f.endswith(".py")}
        except Exception:
            pass
        cov["anchored_files_functions_executed"] = {f: qs for f, qs in sorted(fe.items()) if f in anchors}
        cov["anchored_files_without_any_executed_function"] = sorted(a for a in anchors if a not in fe)
        cov["functions_executed_total"] = sum(len(v) for v in fe.values())
    cov.update(merged["notes"])
    cov.update(fp)
    ev = {
        "property_id": prop,
        "tier": tier,
        "seed": seed,
        "level": "exploration",
        "coverage": cov,
        "assumptions": getattr(mod, "ASSUMPTIONS", []),
        "wall_s": round(time.monotonic() - t0, 2),
        "violations": len(new),
    }
    evdir = os.environ.get("VERIF_EVIDENCE_DIR") or os.path.join(VERIF, "evidence")
    os.makedirs(evdir, exist_ok=True)
    with open(os.path.join(evdir, f"{prop}.json"), "w") as f:
        json.dump(ev, f, indent=1, default=str)
        f.write("\n")
    # ---- report
    for line in lines:
        print(line)
    print(
        f"{prop} {tier} seed={seed}: evaluations={merged['evaluations']} distinct_nontrivial={len(distinct)} "
        f"shards={nshards} truncated={merged['truncated']} wall={ev['wall_s']}s"
    )
    if not os.environ.get("VERIF_KEEP_RUN"):
        import shutil

        shutil.rmtree(outdir, ignore_errors=True)
    if new:
        for key, v, path in new:
            print(f"VIOLATION property={prop} replay={path}")
            print(f"  key={key} count={v['count']} what={v['what']}")
            w = v["witnesses"][0] if v["witnesses"] else None
            if isinstance(w, dict) and "summary" in w:
                print(f"  e.g. {w['summary']}")
        return 1
    if reasons:
        print(f"INCONCLUSIVE property={prop} reason={'; '.join(reasons)}")
        return 2
    print(f"HELD property={prop} on everything observed")
    return 0


def replay(prop, path):
    opt = []
    try:
        with open(path) as f:
            if '"python_optimize"' in f.read():
                opt = ["-O"]     # the witness was observed under python -O: replay it the same way
    except OSError:
        pass
    cmd = [python()] + opt + ["-m", "vmon.shard", prop, "--replay", path]
    p = subprocess.run(cmd, cwd=VERIF, env=_env())
    return p.returncode


if __name__ == "__main__":
    sys.exit(main())
