"""Run the repository's tests as workload W0 (subprocess pytest with the plugin) and merge
what the monitors observed into the calling shard's recorder."""
import json
import os
import subprocess
import sys
import tempfile

from . import load


def run_repo_tests(rec, prop, timeout=600):
    out = tempfile.NamedTemporaryFile(prefix="vmon-w0-", suffix=".json", delete=False, dir=os.path.join(load.VERIF, ".run") if os.path.isdir(os.path.join(load.VERIF, ".run")) else None)
    out.close()
    env = dict(os.environ)
    env.update({"MATHY_CORE_VERIF": "1", "VMON_PROP": prop, "VMON_OUT": out.name, "PYTHONHASHSEED": "0", "PYTHONDONTWRITEBYTECODE": "1",
                "PYTHONPATH": load.VERIF + os.pathsep + load.REPO + os.pathsep + env.get("PYTHONPATH", "")})
    cmd = [sys.executable, "-m", "pytest", "-q", "-x", "-p", "no:cacheprovider", "-p", "vmon.pytest_plugin", "--timeout=600", "tests", "website/tests"]
    try:
        p = subprocess.run(cmd, cwd=load.REPO, env=env, capture_output=True, text=True, timeout=timeout)
    except subprocess.TimeoutExpired:
        rec.skip("W0: repository tests timed out under the monitors")
        return None
    try:
        with open(out.name) as f:
            d = json.load(f)
    except Exception:
        rec.skip("W0: repository tests produced no monitor report")
        rec.notes["w0_error"] = (p.stdout or "")[-600:] + (p.stderr or "")[-600:]
        return None
    finally:
        try:
            os.unlink(out.name)
        except OSError:
            pass
    rec.evaluations += d["evaluations"]
    rec.arm("w0:repo-test-run")
    rec.arm("w0:monitor-evaluations", d["evaluations"])
    rec.notes["w0_pytest_tail"] = (p.stdout or "").strip().splitlines()[-1:] if p.stdout else []
    rec.notes["w0_pytest_returncode"] = p.returncode
    for key, v in d["violations"].items():
        for w in v["witnesses"][:2]:
            if isinstance(w, dict):
                w["workload"] = "W0 (repository tests)"
            rec.violation(prop, key, v["what"], w)
        m = rec.violations.get(key)
        if m:
            m["count"] += max(0, v["count"] - len(v["witnesses"][:2]))
    return d
