"""O1 -- shadows (immutable structural snapshots), link audit, constructor-level copier.

Nothing here calls a method of a mathy_core node: only the attributes
left / right / parent / value / identifier / id / child_on_left and the class name
are read, with our own recursion.  (`build` *constructs* nodes through the public
constructors; that is the one place where repository code runs.)
"""
import math
from fractions import Fraction

UNARY = ("Negate", "Factorial", "Sgn", "Abs")
BINARY = ("Equal", "Add", "Subtract", "Multiply", "Divide", "Power")
LEAF = ("Constant", "Variable")
MAX_DEPTH = 400


def kind(n):
    name = type(n).__name__
    return name[:-10] if name.endswith("Expression") else name


def num_payload(v):
    """(type tag, exact value) of a constant payload."""
    tag = type(v).__module__.split(".")[0][:2] + ":" + type(v).__name__
    if v is None:
        return ("none", None)
    if isinstance(v, bool):
        return ("bool", int(v))
    try:
        import numpy as np

        if isinstance(v, np.generic):
            pv = v.item()
        else:
            pv = v
    except Exception:
        pv = v
    if isinstance(pv, int):
        return (tag, Fraction(pv))
    if isinstance(pv, float):
        if math.isnan(pv):
            return (tag, "nan")
        if math.isinf(pv):
            return (tag, "inf" if pv > 0 else "-inf")
        return (tag, Fraction(pv))
    if isinstance(pv, Fraction):
        return (tag, pv)
    return (tag, repr(pv))


def shadow(n, _d=0):
    """Nested tuple (kind, payload, left, right)."""
    if n is None:
        return None
    if _d > MAX_DEPTH:
        raise RecursionError("shadow: tree too deep or cyclic")
    k = kind(n)
    if k == "Constant":
        p = num_payload(getattr(n, "value", None))
    elif k == "Variable":
        p = getattr(n, "identifier", None)
    elif k in UNARY:
        p = bool(getattr(n, "child_on_left", False))
    else:
        p = None
    return (k, p, shadow(n.left, _d + 1), shadow(n.right, _d + 1))


def vshadow(n, _d=0):
    """Shadow that ignores Python/NumPy type tags of constants and unary side flags
    (value-level structure): what two *structurally identical* trees must share when
    one of them was produced by a different route (fresh parser, re-parse)."""
    if n is None:
        return None
    if _d > MAX_DEPTH:
        raise RecursionError("vshadow: tree too deep or cyclic")
    k = kind(n)
    if k == "Constant":
        p = num_payload(getattr(n, "value", None))[1]
    elif k == "Variable":
        p = getattr(n, "identifier", None)
    else:
        p = None
    return (k, p, vshadow(n.left, _d + 1), vshadow(n.right, _d + 1))


def idshadow(n, _d=0):
    """Identity-level shadow: object ids, parent pointers, node ids, payload."""
    if n is None:
        return None
    if _d > MAX_DEPTH:
        raise RecursionError("idshadow: tree too deep or cyclic")
    k = kind(n)
    if k == "Constant":
        p = num_payload(getattr(n, "value", None))
    elif k == "Variable":
        p = getattr(n, "identifier", None)
    elif k in UNARY:
        p = bool(getattr(n, "child_on_left", False))
    else:
        p = None
    return (k, p, id(n), id(n.parent) if n.parent is not None else None, getattr(n, "id", None),
            idshadow(n.left, _d + 1), idshadow(n.right, _d + 1))


def nodes_inorder(n, out=None, _d=0):
    if out is None:
        out = []
    if n is None:
        return out
    if _d > MAX_DEPTH:
        raise RecursionError("nodes_inorder: too deep")
    nodes_inorder(n.left, out, _d + 1)
    out.append(n)
    nodes_inorder(n.right, out, _d + 1)
    return out


def nodes_preorder(n, out=None, _d=0):
    if out is None:
        out = []
    if n is None:
        return out
    if _d > MAX_DEPTH:
        raise RecursionError("nodes_preorder: too deep")
    out.append(n)
    nodes_preorder(n.left, out, _d + 1)
    nodes_preorder(n.right, out, _d + 1)
    return out


def root_of(n):
    seen = 0
    ids = None
    while n.parent is not None:
        n = n.parent
        seen += 1
        if seen > 10000:
            # very deep or cyclic?  from here on remember what was seen
            if ids is None:
                ids = set()
            if id(n) in ids or seen > 2000000:
                raise RecursionError("parent chain cyclic")
            ids.add(id(n))
    return n


def path_from_root(n):
    """List of 'L'/'R' from the root down to n (by object identity), or None if the
    parent chain is inconsistent."""
    path = []
    seen = 0
    while n.parent is not None:
        p = n.parent
        if p.left is n:
            path.append("L")
        elif p.right is n:
            path.append("R")
        else:
            return None
        n = p
        seen += 1
        if seen > 10000:
            return None
    path.reverse()
    return path


def follow(root, path):
    n = root
    for s in path:
        if n is None:
            return None
        n = n.left if s == "L" else n.right
    return n


def audit(root, expr=True):
    """Structural soundness of a whole tree.  Returns a list of problems (empty = ok)."""
    problems = []
    if root is None:
        return ["root is None"]
    if root.parent is not None:
        problems.append("root has a parent")
    seen = {}
    stack = [(root, None, 0, "")]
    count = 0
    while stack:
        n, par, d, path = stack.pop()
        count += 1
        if count > 200000:
            problems.append("more than 200000 nodes (cycle?)")
            break
        if d > MAX_DEPTH:
            problems.append(f"depth > {MAX_DEPTH} at {path}")
            continue
        if id(n) in seen:
            problems.append(f"node object reached twice: {kind(n)} at {path} and {seen[id(n)]}")
            continue
        seen[id(n)] = path
        if par is not None and n.parent is not par:
            problems.append(f"parent pointer of {kind(n)} at {path} is not the node that points at it")
        if expr:
            k = kind(n)
            if k in BINARY:
                if n.left is None or n.right is None:
                    problems.append(f"binary {k} at {path} lacks an operand")
            elif k in UNARY:
                nc = (n.left is not None) + (n.right is not None)
                if nc != 1:
                    problems.append(f"unary {k} at {path} has {nc} children")
                else:
                    col = bool(getattr(n, "child_on_left", False))
                    want = n.left if col else n.right
                    if want is None:
                        problems.append(f"unary {k} at {path}: operand is on the side its flag does not name")
            elif k in LEAF:
                if n.left is not None or n.right is not None:
                    problems.append(f"leaf {k} at {path} has children")
                if k == "Constant" and getattr(n, "value", None) is None:
                    problems.append(f"constant at {path} has no value")
                if k == "Variable" and not isinstance(getattr(n, "identifier", None), str):
                    problems.append(f"variable at {path} has no identifier")
            else:
                problems.append(f"unknown node kind {type(n).__name__} at {path}")
        if n.left is not None:
            stack.append((n.left, n, d + 1, path + "L"))
        if n.right is not None:
            stack.append((n.right, n, d + 1, path + "R"))
    return problems


def size(s):
    if s is None:
        return 0
    return 1 + size(s[2]) + size(s[3])


def depth(s):
    if s is None:
        return 0
    return 1 + max(depth(s[2]), depth(s[3]))


def variables(s, out=None):
    if out is None:
        out = set()
    if s is None:
        return out
    if s[0] == "Variable":
        out.add(s[1])
    variables(s[2], out)
    variables(s[3], out)
    return out


def kinds(s, out=None):
    if out is None:
        out = set()
    if s is None:
        return out
    out.add(s[0])
    kinds(s[2], out)
    kinds(s[3], out)
    return out


def constants(s, out=None):
    """list of (tag, value) payloads of the constants of a shadow"""
    if out is None:
        out = []
    if s is None:
        return out
    if s[0] == "Constant":
        out.append(s[1])
    constants(s[2], out)
    constants(s[3], out)
    return out


def has_nonfinite(s):
    return any(isinstance(p[1], str) or p[1] is None for p in constants(s))


def bigrams(s, out=None):
    """set of (parent kind, side, child kind)"""
    if out is None:
        out = set()
    if s is None:
        return out
    for side, c in (("L", s[2]), ("R", s[3])):
        if c is not None:
            out.add((s[0], side, c[0]))
            bigrams(c, out)
    return out


# ---------------------------------------------------------------- JSON (de)serialisation

def to_json(s):
    """shadow -> JSON-able nested list"""
    if s is None:
        return None
    k, p, l, r = s
    if k == "Constant":
        tag, v = p
        if isinstance(v, Fraction):
            pv = [tag, str(v.numerator), str(v.denominator)]
        else:
            pv = [tag, v, None]
    else:
        pv = p
    return [k, pv, to_json(l), to_json(r)]


def from_json(j):
    if j is None:
        return None
    k, p, l, r = j
    if k == "Constant":
        tag, a, b = p
        if b is not None:
            p = (tag, Fraction(int(a), int(b)))
        else:
            p = (tag, a)
    return (k, p, from_json(l), from_json(r))


def _number(tag, v):
    """Re-create a constant payload of the recorded Python/NumPy type."""
    import numpy as np

    if isinstance(v, str):
        f = float(v)
    elif v is None:
        return None
    else:
        f = v
    name = tag.split(":")[-1]
    if name == "int":
        return int(f)
    if name == "float":
        return float(f)
    if name == "bool":
        return bool(f)
    if hasattr(np, name):
        t = getattr(np, name)
        try:
            if isinstance(f, Fraction) and f.denominator == 1:
                return t(int(f))
            return t(float(f))
        except Exception:
            pass
    if isinstance(f, Fraction):
        return int(f) if f.denominator == 1 else float(f)
    return f


def build(s):
    """Constructor-level copier: shadow -> a fresh mathy_core tree (public constructors
    only; independent of clone())."""
    from mathy_core import expressions as E

    if s is None:
        return None
    k, p, l, r = s
    if k == "Constant":
        return E.ConstantExpression(_number(*p))
    if k == "Variable":
        return E.VariableExpression(p)
    cls = getattr(E, k + "Expression", None)
    if cls is None:
        # not an expression class (raw BinaryTreeNode, bare MathExpression): generic node
        from mathy_core.tree import BinaryTreeNode

        cls = E.MathExpression if k == "Math" else BinaryTreeNode
        if cls is BinaryTreeNode:
            return cls(build(l), build(r))
        return cls(None, build(l), build(r))
    if k in UNARY:
        child = build(l if l is not None else r)
        on_left = bool(p) if (l is None) != (r is None) else False
        # the side the operand really sits on wins (a shadow may record a lying flag)
        really_left = l is not None and r is None
        node = cls(child, child_on_left=really_left) if k != "Sgn" and k != "Abs" else cls(child, really_left)
        if on_left != really_left:
            node.child_on_left = on_left
        return node
    return cls(build(l), build(r))


def text_of(n):
    """str(n) that never raises (monitors use it only for witnesses)."""
    try:
        return str(n)
    except Exception as e:  # pragma: no cover
        return f"<str failed: {type(e).__name__}: {e}>"
