"""O2/O3 -- exact rational evaluator with scale, assignments, value and equation oracles.

Works on shadows (see shadow.py), never on live nodes, and shares no code with
mathy_core's evaluate().
"""
import math
import random
from fractions import Fraction

MAX_BITS = 6000
MAX_EXP = 64
MAX_FACT = 60   # the three bounds are raised by the evaluation check (C05), which wants exact integers of thousands of digits
TOL_OK = Fraction(1, 10 ** 9)
TOL_BAD = Fraction(1, 10 ** 6)
ILL = Fraction(1, 10 ** 6)


class Undef(Exception):
    """The expression has no value (for this oracle) at this assignment."""

    def __init__(self, reason):
        super().__init__(reason)
        self.reason = reason


class Val:
    """value + scale (+ flags).  v is a Fraction (exact) or a float (approximate)."""

    __slots__ = ("v", "s", "approx", "ill")

    def __init__(self, v, s, approx=False, ill=False):
        self.v = v
        self.s = s
        self.approx = approx
        self.ill = ill


def _big(x):
    if isinstance(x, Fraction):
        return x.numerator.bit_length() > MAX_BITS or x.denominator.bit_length() > MAX_BITS
    return not (abs(x) < 1e150)


def _f(x):
    try:
        return float(x)
    except OverflowError:
        raise Undef("magnitude beyond the oracle's bound")


def ev(s, sigma):
    """Evaluate shadow `s` at assignment `sigma` (dict name -> Fraction) -> Val."""
    try:
        return _ev(s, sigma)
    except (OverflowError, ZeroDivisionError, ValueError, RecursionError) as e:
        raise Undef("arithmetic outside the oracle's range: " + type(e).__name__)


def _ev(s, sigma):
    k = s[0]
    if k == "Constant":
        v = s[1][1]
        if not isinstance(v, Fraction):
            raise Undef("non-finite constant")
        return Val(v, abs(v))
    if k == "Variable":
        if s[1] not in sigma:
            raise Undef("unbound variable")
        v = sigma[s[1]]
        return Val(v, abs(v))
    if k in ("Negate", "Factorial", "Sgn", "Abs"):
        c = s[2] if s[2] is not None else s[3]
        if c is None or (s[2] is not None and s[3] is not None):
            raise Undef("malformed unary")
        a = ev(c, sigma)
        if k == "Negate":
            return Val(-a.v, a.s, a.approx, a.ill)
        if k == "Abs":
            return Val(abs(a.v), a.s, a.approx, a.ill)
        if k == "Sgn":
            ill = a.ill or (a.s != 0 and abs(a.v) < ILL * a.s and a.v != 0) or (a.approx and abs(a.v) < 1e-6 * _f(a.s))
            if a.v == 0 and a.s != 0 and not _integers_only(c, sigma, a.s):
                # an argument that cancels to exactly 0 over the rationals ((z^4)^1 - (z^2)^2 at z = 3.14) is
                # whatever rounding leaves of it in floating point: its sign is not decidable
                ill = True
            sg = (a.v > 0) - (a.v < 0)
            return Val(Fraction(sg), Fraction(1), False, ill)
        # factorial
        if a.approx or a.v.denominator != 1 or a.v < 0 or a.v > MAX_FACT:
            raise Undef("factorial domain")
        r = Fraction(math.factorial(int(a.v)))
        return Val(r, r, False, a.ill)
    l, r = s[2], s[3]
    if l is None or r is None:
        raise Undef("malformed binary")
    if k == "Equal":
        raise Undef("equation has no value here")
    a = ev(l, sigma)
    b = ev(r, sigma)
    approx = a.approx or b.approx
    ill = a.ill or b.ill
    if approx:
        av, bv, asc, bsc = _f(a.v), _f(b.v), _f(a.s), _f(b.s)
    else:
        av, bv, asc, bsc = a.v, b.v, a.s, b.s
    if k == "Add":
        v, sc = av + bv, asc + bsc
    elif k == "Subtract":
        v, sc = av - bv, asc + bsc
    elif k == "Multiply":
        v, sc = av * bv, asc * bsc
    elif k == "Divide":
        if bv == 0:
            raise Undef("division by zero")
        if abs(bv) < (1e-6 if approx else ILL) * bsc:
            ill = True
        v = av / bv
        sc = asc / abs(bv) * (1 + bsc / abs(bv))
    elif k == "Power":
        if not b.approx and b.v.denominator == 1:
            e = int(b.v)
            if abs(e) > MAX_EXP:
                raise Undef("exponent too large for the oracle")
            if e < 0:
                if av == 0:
                    raise Undef("zero to a negative power")
                if abs(av) < (1e-6 if approx else ILL) * asc:
                    ill = True
                if not approx and max(av.numerator.bit_length(), av.denominator.bit_length(), asc.numerator.bit_length()) * abs(e) > MAX_BITS:
                    raise Undef("magnitude beyond the oracle's bound")
                v = av ** e
                sc = abs(v) * (1 + abs(e) * asc / abs(av))
            else:
                if not approx and e > 1 and max(asc.numerator.bit_length(), asc.denominator.bit_length()) * e > MAX_BITS:
                    raise Undef("magnitude beyond the oracle's bound")
                v = av ** e
                sc = (asc ** e) * max(1, e)
        else:
            # non-integer exponent: real power of a positive base, approximate
            fa, fb = _f(av), _f(bv)
            if not fa > 0:
                raise Undef("non-integer power of a non-positive base")
            if abs(fb) > MAX_EXP:
                raise Undef("exponent too large for the oracle")
            try:
                v = math.pow(fa, fb)
            except (OverflowError, ValueError):
                raise Undef("power overflow")
            fas, fbs = _f(asc), _f(bsc)
            if fa < 1e-6 * fas:
                ill = True
            sc = v * (1 + abs(fb) * fas / fa + fbs * abs(math.log(fa)))
            approx = True
            v, sc = float(v), float(sc)
    else:
        raise Undef(f"unknown kind {k}")
    if _big(v) or _big(sc):
        raise Undef("magnitude beyond the oracle's bound")
    if approx and (v != v or sc != sc):
        raise Undef("nan")
    return Val(v, sc, approx, ill)


def value(s, sigma):
    """Exact value or Undef; approximate values raise Undef('approximate')."""
    r = ev(s, sigma)
    if r.approx:
        raise Undef("approximate")
    return r.v


# ------------------------------------------------------------------ comparison

SAME, DIFF, SKIP = "same", "diff", "skip"


def agree(a, b, tolerant):
    """Three-valued agreement of two Vals."""
    try:
        return _agree(a, b, tolerant)
    except (Undef, OverflowError):
        return SKIP


def _agree(a, b, tolerant):
    """exact mode: equal rationals or DIFF.  Tolerant mode (a float fold happened, or the
    oracle itself approximated a non-integer power), with d = |a - b|:
      SAME  iff d <= 1e-12 * max(|a|, |b|)  (tight, relative to the values themselves)
      DIFF  iff d >  1e-9 * scale            (six orders above double rounding, conditioning included)
      SKIP  otherwise.
    `scale` over-estimates magnitudes (it multiplies absolute values through powers; 13 orders
    of magnitude have been observed), so it is only trusted for the DIFF side: judging SAME
    relative to scale -- even at 1e-13 -- made blatantly false equations look true, and the
    verdict flipped when a rewrite merely changed the scale."""
    if a.ill or b.ill:
        return SKIP
    approx = a.approx or b.approx
    if tolerant == "tight":
        # one rewrite step, every double standing for its own binary value: the two sides differ by the
        # rounding of the few floating-point operations of that step only (2^-53 of each result, carried
        # through the expression: bounded by a small multiple of 2^-53 * scale).  2^-40 * scale is far
        # outside rounding and far inside the ordinary tolerance.  Exact rationals only.
        if approx:
            return SKIP
        if a.v == b.v:
            return SAME
        return DIFF if abs(a.v - b.v) > max(a.s, b.s) / 2 ** 40 else SKIP
    if not approx:
        if a.v == b.v:
            return SAME
        if not tolerant:
            return DIFF
    if approx:
        av, bv = _f(a.v), _f(b.v)
        sc = max(_f(a.s), _f(b.s))
        d = abs(av - bv)
        mag = max(abs(av), abs(bv))
        if d <= 1e-12 * mag:
            return SAME
        return DIFF if d > 1e-9 * sc else SKIP
    d = abs(a.v - b.v)
    sc = max(a.s, b.s)
    mag = max(abs(a.v), abs(b.v))
    if d <= Fraction(1, 10 ** 12) * mag:
        return SAME
    return DIFF if d > TOL_OK * sc else SKIP


def holds(s, sigma, tolerant=False):
    """Truth value of an equation shadow at sigma: True / False / None (undefined or
    too close to call).  A chain 'a = b = c' (nested Equal nodes) holds iff all of its
    members agree."""
    r = _chain(s, sigma, tolerant)
    if r is None:
        return None
    return r[0]


def _integers_only(s, sigma, scale):
    """every leaf of the subtree is an integer below 2^53 in scale and the operators are + - * (and whole
    non-negative powers): then integer and floating-point arithmetic both compute it exactly"""
    if scale >= 2 ** 53:
        return False

    def ok(t):
        if t is None:
            return True
        k = t[0]
        if k == "Constant":
            v = t[1][1] if isinstance(t[1], tuple) else t[1]
            return isinstance(v, Fraction) and v.denominator == 1
        if k == "Variable":
            v = sigma.get(t[1])
            return isinstance(v, Fraction) and v.denominator == 1
        if k in ("Add", "Subtract", "Multiply", "Negate", "Abs"):
            return ok(t[2]) and ok(t[3])
        if k == "Power":
            e = t[3]
            if e is None or e[0] != "Constant":
                return False
            ev_ = e[1][1] if isinstance(e[1], tuple) else e[1]
            return isinstance(ev_, Fraction) and ev_.denominator == 1 and 0 <= ev_ <= 64 and ok(t[2])
        return False

    try:
        return ok(s)
    except Exception:
        return False


def _chain(s, sigma, tolerant):
    """-> (truth, Val or None) or None when undefined / too close to call"""
    if s is None:
        return None
    if s[0] != "Equal":
        try:
            return (True, ev(s, sigma))
        except Undef:
            return None
    a = _chain(s[2], sigma, tolerant)
    b = _chain(s[3], sigma, tolerant)
    if a is None or b is None:
        return None
    if not a[0] or not b[0]:
        return (False, None)
    r = agree(a[1], b[1], tolerant)
    if r == SAME:
        return (True, a[1])
    if r == DIFF:
        return (False, None)
    return None


# ------------------------------------------------------------------ assignments

_SMALL = [Fraction(n, d) for n in range(-7, 10) for d in (1, 2, 3) if n != 0]
_INTS = [Fraction(n) for n in (-5, -4, -3, -2, 2, 3, 4, 5, 6, 7)]
_POS = [Fraction(n, d) for n in range(1, 10) for d in (1, 2, 3)]


def assignments(names, rng, n_extra=0):
    """Deterministic (given rng) batch of assignments to `names`."""
    names = sorted(names)
    out = []

    def mk(pool):
        return {x: rng.choice(pool) for x in names}

    out.append(mk(_INTS))
    out.append(mk(_INTS))
    out.append(mk([Fraction(n) for n in (2, 3, 4, 5, 6, 7)]))
    out.append(mk(_SMALL))
    out.append(mk(_SMALL))
    out.append(mk(_POS))
    out.append(mk(_POS))
    out.append(mk([Fraction(0), Fraction(1), Fraction(-1)]))
    out.append({x: Fraction(rng.choice([10 ** 6 + 3, -(10 ** 6) - 7, 123457, 10 ** 9 + 7])) for x in names})
    out.append({x: Fraction(rng.choice([1, 2, 3])) for x in names})
    for _ in range(n_extra):
        out.append(mk(_SMALL + _INTS))
    if not names:
        return [{}]
    return out


def sigma_json(sig):
    return {k: str(v) for k, v in sorted(sig.items())}


def sigma_from_json(j):
    return {k: Fraction(v) for k, v in j.items()}


def compare_values(sa, sb, sigmas, tolerant):
    """Compare two (non-equation) shadows on a batch.

    Returns dict(common=, same=, skip=, diffs=[(sigma, va, vb)], undef_a=, undef_b=)."""
    res = {"common": 0, "same": 0, "skip": 0, "diffs": [], "undef_a": 0, "undef_b": 0, "approx": 0}
    for sig in sigmas:
        try:
            a = ev(sa, sig)
        except Undef:
            a = None
            res["undef_a"] += 1
        try:
            b = ev(sb, sig)
        except Undef:
            b = None
            res["undef_b"] += 1
        if a is None or b is None:
            continue
        r = agree(a, b, tolerant)
        if r == SKIP:
            res["skip"] += 1
            continue
        res["common"] += 1
        if a.approx or b.approx:
            res["approx"] += 1
        if r == SAME:
            res["same"] += 1
        else:
            res["diffs"].append((sig, a.v, b.v))
    return res


def _affine_root(s, sig, x):
    """If L-R of equation shadow `s` is affine in variable x (others fixed by sig),
    return its root, else None."""
    pts = []
    for t in (0, 1, 2, 3):
        g = dict(sig)
        g[x] = Fraction(t)
        try:
            a = ev(s[2], g)
            b = ev(s[3], g)
        except Undef:
            return None
        if a.approx or b.approx:
            return None
        pts.append(a.v - b.v)
    d = pts[1] - pts[0]
    if d == 0 or pts[2] - pts[1] != d or pts[3] - pts[2] != d:
        return None
    return -pts[0] / d


def witnesses(eq_shadows, names, sigmas, limit=12):
    """Assignments that solve one of the given equation shadows (solved affine roots)."""
    out = []
    names = sorted(names)
    for s in eq_shadows:
        if s is None or s[0] != "Equal":
            continue
        for sig in sigmas[:6]:
            for x in names:
                r = _affine_root(s, sig, x)
                if r is None or _big(r):
                    continue
                g = dict(sig)
                g[x] = r
                out.append(g)
                if len(out) >= limit:
                    return out
                break
    return out


def compare_equations(sa, sb, sigmas, tol_a, tol_b):
    """Truth-value agreement of two equation shadows.

    Returns dict(common=, agree=, true_a=, diffs=[(sigma, ta, tb)])."""
    res = {"common": 0, "agree": 0, "true_a": 0, "true_b": 0, "diffs": [], "undef": 0}
    for sig in sigmas:
        ta = holds(sa, sig, tol_a)
        tb = holds(sb, sig, tol_b)
        if ta is None or tb is None:
            res["undef"] += 1
            continue
        res["common"] += 1
        if ta:
            res["true_a"] += 1
        if tb:
            res["true_b"] += 1
        if ta == tb:
            res["agree"] += 1
        else:
            res["diffs"].append((sig, ta, tb))
    return res


def float_constants(s):
    """multiset (as sorted list) of exact values of float-typed constants"""
    from .shadow import constants

    return sorted(
        (p[1] for p in constants(s) if "float" in p[0] and isinstance(p[1], Fraction)),
    )


def folded(before, after):
    """True iff `after` contains a float-typed constant that `before` does not contain
    as a float-typed constant of the same absolute value (something was computed in
    floating point by the rewrite; a pure sign flip is exact and does not count)."""
    from .shadow import constants
    from collections import Counter

    def floats(s):
        return Counter(abs(p[1]) for p in constants(s) if "float" in p[0] and isinstance(p[1], Fraction))

    cb, ca = floats(before), floats(after)
    for v, n in ca.items():
        if cb.get(v, 0) < n:
            return True
    return False


def magnitude_bits(s, sigma, limit=60000):
    """Conservative upper bound on log2 of the magnitude (numerator or denominator) of
    any intermediate value when `s` is evaluated exactly at sigma.  Returns None when a
    bound cannot be established below `limit` (the workload then does not hand the tree to
    the implementation: exact integer powers of that size would take minutes)."""
    try:
        return _mag(s, sigma, limit)
    except _TooBig:
        return None


class _TooBig(Exception):
    pass


def _mag(s, sigma, limit):
    k = s[0]
    if k == "Constant":
        v = s[1][1]
        if not isinstance(v, Fraction):
            return 1
        return max(v.numerator.bit_length(), v.denominator.bit_length())
    if k == "Variable":
        v = sigma.get(s[1])
        if v is None:
            return 1
        v = Fraction(v)
        return max(v.numerator.bit_length(), v.denominator.bit_length())
    if k in ("Negate", "Abs", "Sgn"):
        c = s[2] if s[2] is not None else s[3]
        return _mag(c, sigma, limit) if c is not None else 1
    if k == "Factorial":
        c = s[2] if s[2] is not None else s[3]
        b = _mag(c, sigma, limit) if c is not None else 1
        if b > 7:  # argument may exceed 127: bound n! by n*log2(n) bits when n itself is cheap to know
            n = _small_value(c, sigma, b)
            if n is None or n.denominator != 1 or abs(n) > 5000:
                raise _TooBig()
            r = int(abs(n)) * max(1, int(abs(n)).bit_length())
            if r > limit:
                raise _TooBig()
            return max(r, 800)
        return 800
    if s[2] is None or s[3] is None:
        return 1
    a = _mag(s[2], sigma, limit)
    b = _mag(s[3], sigma, limit)
    if k in ("Add", "Subtract"):
        r = a + b + 1
    elif k in ("Multiply", "Divide", "Equal"):
        r = a + b
    elif k == "Power":
        e = _small_value(s[3], sigma, b)
        if e is not None and e.denominator == 1 and abs(e) <= 70000:
            r = a * max(1, int(abs(e)))      # the exponent's actual value instead of its bit bound
        elif b > 12:  # |exponent| may exceed 4096
            raise _TooBig()
        else:
            r = a * (2 ** b)
    else:
        r = a + b
    if r > limit:
        raise _TooBig()
    return r


def _small_value(s, sigma, bits):
    """exact value of a subtree whose magnitude bound is small (cheap to evaluate), else None"""
    if bits > 64:
        return None
    try:
        v = ev(s, sigma)
    except Exception:
        return None
    return v.v if (not v.approx and isinstance(v.v, Fraction)) else None


MATH_UNDEFINED = ("division by zero", "zero to a negative power", "factorial domain", "non-integer power of a non-positive base")


def definedness(s, sigma):
    """'defined' | 'undefined' (mathematically: division by zero, 0^negative, factorial
    outside its domain, fractional power of a non-positive base) | 'limit' (the oracle's own
    bounds: magnitude, exponent size, unbound variable...).  Only defined-vs-undefined is a
    difference between two expressions; 'limit' depends on the evaluation order."""
    try:
        ev(s, sigma)
        return "defined"
    except Undef as u:
        return "undefined" if u.reason in MATH_UNDEFINED else "limit"


def definedness_differs(sa, sb, sigmas):
    """first assignment at which exactly one of the two is mathematically undefined while the
    other is defined, or None"""
    for s0 in sigmas:
        da, db = definedness(sa, s0), definedness(sb, s0)
        if {da, db} == {"defined", "undefined"}:
            return s0, da, db
    return None


# ------------------------------------------------------------------ exactification of float folds
# Constant arithmetic folds in floating point ('1 / 3' -> 0.3333333333333333).  Instead of
# comparing with a tolerance afterwards, the monitor works out which exact rational the new
# constant stands for (the exact result of an operation on two constants of the rewritten
# node that rounds to it) and evaluates every later shadow with the exact value in its
# place.  Comparisons then stay exact; tolerance remains only as a fallback for folds that
# could not be resolved.
EXACT = {}


def exactify(s):
    """shadow with every float constant that a resolved fold produced replaced by the exact
    rational it stands for"""
    if s is None or not EXACT:
        return s
    k, p, l, r = s
    if k == "Constant":
        v = p[1]
        if isinstance(v, Fraction) and v in EXACT and "float" in p[0]:
            return (k, (p[0], EXACT[v]), None, None)
        return s
    nl, nr = exactify(l), exactify(r)
    if nl is l and nr is r:
        return s
    return (k, p, nl, nr)


def new_floats(before, after):
    """exact values (Fractions of the doubles) of float-typed constants of `after` that do not
    occur, up to sign, among the float-typed constants of `before`"""
    from .shadow import constants
    from collections import Counter

    def floats(x):
        return Counter(abs(p[1]) for p in constants(x) if "float" in p[0] and isinstance(p[1], Fraction))

    cb, ca = floats(before), floats(after)
    out = []
    for v, n in ca.items():
        if cb.get(v, 0) < n:
            out.append(v)
    return out


def _const_values(s, out):
    from .shadow import constants

    for tag, v in constants(s):
        if isinstance(v, Fraction):
            out.append(EXACT.get(v, v) if "float" in tag else v)
    return out


def fold_off(region, before, after):
    """A constant-arithmetic step on a + - * / node whose one new float constant is NOT the correctly
    rounded result of any two constants of the rewritten node: further than 2^-50 (relative) from every
    c1 op c2 computed exactly from the binary values of the doubles.  One IEEE operation on operands that
    are exactly representable is correctly rounded (2^-53), so such a constant is not rounding slack.
    Returns (F, nearest exact result, relative distance) or None (not decidable / not off)."""
    from .shadow import constants

    if region is None or region[0] not in ("Add", "Subtract", "Multiply", "Divide"):
        return None
    news = new_floats(before, after)
    if len(news) != 1:
        return None
    F = news[0]
    consts = []
    for tag, v in constants(region):
        if not isinstance(v, Fraction):
            return None
        if v != 0 and (v.numerator.bit_length() > 1100 or v.denominator.bit_length() > 1100):
            return None
        try:
            if Fraction(float(v)) != v:
                return None          # an operand that is itself rounded on its way into the operation
        except (OverflowError, ValueError):
            return None
        consts.append(v)
    if not 2 <= len(consts) <= 6:
        return None
    best = None
    for i, a in enumerate(consts):
        for j, b in enumerate(consts):
            if i == j:
                continue
            rs = [a + b, a - b, a * b]
            if b != 0:
                rs.append(a / b)
            for q in rs:
                q = abs(q)
                if q != 0 and not (Fraction(1, 10 ** 290) < q < Fraction(10 ** 290)):
                    return None      # under/overflow region: anything may legitimately happen
                d = abs(q - F)
                if d == 0 or (q != 0 and d <= q / 2 ** 50):
                    return None      # within rounding of a legitimate fold
                rel = (d / q) if q != 0 else Fraction(1)
                if best is None or rel < best[2]:
                    best = (F, q, rel)
    return best


def resolve_folds(region, before, after):
    """Try to give every new float constant of `after` its exact value: the exact result of
    c1 op c2 (op in + - * / ^, either order, optionally negated) over the constants of `region`
    (the rewritten node before the rewrite) that agrees with the double to 1e-14 relative.
    Returns (number of new floats, number resolved)."""
    news = new_floats(before, after)
    if not news:
        return 0, 0
    consts = _const_values(region, [])[:24]
    resolved = 0
    for F in news:
        if F in EXACT or -F in EXACT:
            resolved += 1
            continue
        cands = set()
        for i, a in enumerate(consts):
            for j, b in enumerate(consts):
                if i == j:
                    continue
                rs = [a + b, a - b, a * b]
                if b != 0:
                    rs.append(a / b)
                if b.denominator == 1 and abs(b) <= 64 and not (a == 0 and b < 0):
                    try:
                        rs.append(a ** int(b))
                    except Exception:
                        pass
                for r in rs:
                    if _big(r):
                        continue
                    for q in (r, -r):
                        if q != F and abs(q - F) <= Fraction(1, 10 ** 14) * abs(F):
                            cands.add(q)
                        elif q == F:
                            cands.add(q)
        # only the magnitude matters for matching (new_floats works up to sign)
        mags = {abs(q) for q in cands}
        if len(mags) == 1:
            q = mags.pop()
            EXACT[F] = q
            EXACT[-F] = -q
            resolved += 1
    return len(news), resolved
