"""M-str / O6 -- print-and-reparse oracle with culprit search."""
import random

from . import exact as X
from . import shadow as S


_OTHERS = []
_N = [0]
USER_ROUTE = [False]     # replays take the route through the caller's own parser (it shows everything the other routes show)


def _fresh_parse(text):
    """the text is read back by a brand-new stock parser.  Other parsers live in the same process:
    before the new parser reads the text, a long-lived parser with DIFFERENT tokenizer settings
    (padding kept, 'abs' registered as a function) has seen the same text on every other call --
    what one parser object does must not change how another one reads a text."""
    from mathy_core.parser import ExpressionParser
    from mathy_core.expressions import AbsExpression
    from mathy_core.tokenizer import Tokenizer

    f = ExpressionParser.parse
    f = getattr(f, "__vmon_original__", f)
    if not _OTHERS:
        q = ExpressionParser()
        q.tokenizer = Tokenizer(exclude_padding=False)
        q.tokenizer.functions["abs"] = AbsExpression
        q.tokenizer._vmon_funcs = {"sgn": "Sgn", "abs": "Abs"}
        _OTHERS.append(q)
    p = ExpressionParser()
    _N[0] += 1
    if _N[0] % 3 == 0 or USER_ROUTE[0]:
        # ... or by the parser the caller already has: a stock parser that lives through the whole check, asked for
        # the tokens of the text first (a caller's own look at them: the list is consumed and edited), then to parse it
        if len(_OTHERS) < 2:
            _OTHERS.append(ExpressionParser())
        user = _OTHERS[1]
        t = getattr(ExpressionParser.tokenize, "__vmon_original__", ExpressionParser.tokenize)
        try:
            toks = t(user, text)
            if toks:
                toks.pop(0)
                toks.reverse()
                del toks[len(toks) // 2:]
        except Exception:
            pass
        if len(getattr(user, "_parse_cache", {})) > 4000:
            user.clear_cache()
        return f(user, text)
    if _N[0] % 2:
        t = getattr(type(_OTHERS[0]).tokenize, "__vmon_original__", type(_OTHERS[0]).tokenize)
        try:
            t(_OTHERS[0], text)
        except Exception:
            pass
    return f(p, text)


def equivalent(sa, sb, rng, hints=()):
    """sa = shadow of the tree, sb = shadow of the re-parsed text.
    -> ('same'|'diff'|'skip', detail).  Exact comparison (printing must not round)."""
    if S.variables(sa) != S.variables(sb):
        return "diff", f"variables {sorted(S.variables(sa))} became {sorted(S.variables(sb))}"
    if (sa[0] == "Equal") != (sb[0] == "Equal"):
        return "diff", "equation-ness changed"
    names = S.variables(sa)
    sig = list(hints) + X.assignments(names, rng)
    if sa[0] == "Equal":
        sig = sig + X.witnesses([sa, sb], names, sig)
        r = X.compare_equations(sa, sb, sig, False, False)
        if r["diffs"]:
            s0, ta, tb = r["diffs"][0]
            return "diff", f"equation is {ta} but the re-parsed one is {tb} at {X.sigma_json(s0)}"
        nested = any(c is not None and c[0] == "Equal" for c in (sa[2], sa[3], sb[2], sb[3]))
        if not nested:
            # printing moves nothing across '=': the sides must also agree as values
            for i in (2, 3):
                v, d = equivalent(sa[i], sb[i], rng, hints) if sa[i] is not None and sb[i] is not None else ("skip", "")
                if v == "diff":
                    return v, ("left" if i == 2 else "right") + " side: " + d
        return ("same" if r["common"] >= 3 else "skip"), "equation"
    r = X.compare_values(sa, sb, sig, tolerant=False)
    if r["diffs"]:
        s0, a, b = r["diffs"][0]
        return "diff", f"value {a} became {b} at {X.sigma_json(s0)}"
    if r["undef_a"] or r["undef_b"]:
        dd = X.definedness_differs(sa, sb, sig)
        if dd:
            return "diff", f"defined only {'before' if dd[1] == 'defined' else 'after'} re-parsing at {X.sigma_json(dd[0])}"
    if r["common"] >= (3 if names else 1):
        return "same", ""
    return "skip", f"only {r['common']} comparable points"


def roundtrip(sh, text=None, rng=None, hints=()):
    """Decide one tree (given as shadow; `text` = str(tree) if the caller has it).
    -> (verdict, detail, text) verdict in same / diff / skip / rejected / print-raises"""
    rng = rng or random.Random(0)
    if text is None:
        try:
            text = str(S.build(sh))
        except Exception as e:
            return "print-raises", f"{type(e).__name__}: {e}", None
    try:
        back = _fresh_parse(text)
    except Exception as e:
        return "rejected", f"{type(e).__name__}: {str(e)[:80]}", text
    sb = S.shadow(back)
    if S.vshadow(back) == _v(sh):
        return "same", "identical tree", text
    v, d = equivalent(sh, sb, rng, hints)
    return v, d, text


def _v(s):
    if s is None:
        return None
    k, p, l, r = s
    if k == "Constant":
        p = p[1]
    elif k != "Variable":
        p = None
    return (k, p, _v(l), _v(r))


def in_domain(sh):
    """C04 speaks about finite constants and about node kinds the text syntax has."""
    ks = S.kinds(sh)
    if "Abs" in ks:
        return False, "AbsExpression has no text syntax"
    if S.has_nonfinite(sh):
        return False, "non-finite constant"
    return True, ""


def culprit(sh, rng=None):
    """Smallest subtree (post-order) whose own text does not read back to it while all
    of its children's texts do.  -> (mechanism key, subtree text) or (None, None)."""
    rng = rng or random.Random(1)
    found = []

    def rec(s):
        if s is None or found:
            return True
        ok_children = True
        for c in (s[2], s[3]):
            if c is not None:
                ok_children = rec(c) and ok_children
                if found:
                    return False
        if not ok_children:
            return False
        v, d, text = roundtrip(s, None, rng)
        if v in ("diff", "rejected", "print-raises"):
            found.append((s, v, d, text))
            return False
        return True

    rec(sh)
    if not found:
        return None, None, None
    s, v, d, text = found[0]

    def desc(c):
        if c is None:
            return "-"
        k = c[0]
        extra = ""
        try:
            t = str(S.build(c))
            if t.startswith("-"):
                extra = "~neg"
            elif t[:1].isdigit() or t[:1] == ".":
                extra = "~lit" if k != "Constant" else ""
            if k == "Multiply" and not t.startswith("(") and " " not in t:
                extra += "~compact"
        except Exception:
            extra = "~unprintable"
        return k + extra

    key = f"print/{s[0]}[{desc(s[2])},{desc(s[3])}]/{'rejected' if v == 'rejected' else 'misread' if v == 'diff' else v}"
    return key, text, d
