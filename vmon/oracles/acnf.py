"""O5 -- AC-normal form of value-level shadows: nested + and nested * are flattened into
sorted multisets, every other operator stays positional."""
from fractions import Fraction


def v(s):
    """shadow -> value-level shadow (constants by exact value, no flags)"""
    if s is None:
        return None
    k, p, l, r = s
    if k == "Constant":
        p = p[1] if isinstance(p, tuple) else p
    elif k != "Variable":
        p = None
    return (k, p, v(l), v(r))


def acnf(s):
    if s is None:
        return None
    k = s[0]
    if k in ("Constant", "Variable"):
        return (k, s[1])
    if k in ("Add", "Multiply"):
        items = []

        def flat(x):
            if x[0] == k:
                flat(x[2])
                flat(x[3])
            else:
                items.append(acnf(x))

        flat(s)
        return (k + "*", tuple(sorted(items, key=repr)))
    return (k, acnf(s[2]), acnf(s[3]))


def leaves(s, out=None):
    if out is None:
        out = []
    if s is None:
        return out
    if s[0] in ("Constant", "Variable"):
        out.append((s[0], s[1]))
    else:
        leaves(s[2], out)
        leaves(s[3], out)
    return out


def C(x):
    return ("Constant", Fraction(x), None, None)


def V(n):
    return ("Variable", n, None, None)


def B(k, a, b):
    return (k, None, a, b)


def U(k, a):
    return (k, None, None, a)


def has_var(s):
    return any(k == "Variable" for k, _ in leaves(s))
