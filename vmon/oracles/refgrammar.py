"""O4 -- reference tokenizer and recursive-descent recogniser written from the
documented grammar (DESIGN.md Appendix A).  Independent of mathy_core.

The AST it produces is in *shadow format* (see shadow.py): (kind, payload, left, right)
with unary operands in the right slot, so the exact evaluator and the structural
comparisons work on reference ASTs and on implementation trees alike.
"""
from fractions import Fraction

FUNCS = {"sgn": "Sgn"}


class Reject(Exception):
    """The documented grammar does not derive the token string."""


class BadNumber(Exception):
    """A digit/dot run that float() does not accept."""


class BadChar(Exception):
    """A character outside the supported alphabet."""

    def __init__(self, ch, pos):
        super().__init__(ch)
        self.ch = ch
        self.pos = pos


def _alpha(c):
    return ("a" <= c <= "z") or ("A" <= c <= "Z")


def _num(c):
    return c == "." or ("0" <= c <= "9")


# token = (type, value); types: C V F + - * / ^ ! ( ) = P EOF
def ref_tokenize(s, keep_padding=True, funcs=None):
    funcs = FUNCS if funcs is None else funcs
    toks = []
    i = 0
    n = len(s)
    while i < n:
        c = s[i]
        if _num(c):
            j = i
            while j < n and _num(s[j]):
                j += 1
            toks.append(("C", s[i:j]))
            i = j
        elif _alpha(c):
            j = i
            while j < n and _alpha(s[j]):
                j += 1
            run = s[i:j]
            if run in funcs:
                toks.append(("F", run))
            else:
                toks.extend(("V", ch) for ch in run)
            i = j
        elif c == " " or c == "\t" or c == "\r" or c == "\n":
            if keep_padding:
                toks.append(("P", c))
            i += 1
        elif c in "+*/^!=":
            toks.append((c, c))
            i += 1
        elif c == "-" or c == "–":
            toks.append(("-", "-"))
            i += 1
        elif c == "(" or c == "[":
            toks.append(("(", "("))
            i += 1
        elif c == ")" or c == "]":
            toks.append((")", ")"))
            i += 1
        else:
            raise BadChar(c, i)
    toks.append(("EOF", ""))
    return toks


def normalise(s):
    """the three documented normalisations of token values"""
    return s.replace("–", "-").replace("[", "(").replace("]", ")")


def C(txt_or_val, neg=False):
    v = txt_or_val
    if isinstance(v, str):
        try:
            v = float(v) if "." in v else int(v)
        except ValueError:
            if v.isascii() and v.isdigit():
                v = big_int(v)      # only the interpreter's int(str) digit limit stood in the way: the literal is well formed
            else:
                raise BadNumber(txt_or_val)
    if neg:
        v = -v
    tag = "bu:int" if isinstance(v, int) else "bu:float"
    if isinstance(v, float) and (v != v or v in (float("inf"), float("-inf"))):
        return ("Constant", (tag, "nan" if v != v else ("inf" if v > 0 else "-inf")), None, None)
    return ("Constant", (tag, Fraction(v)), None, None)


def big_int(digits):
    """int(digits) with the interpreter's limit on int<->str conversion lifted for the moment"""
    import sys

    lim = sys.get_int_max_str_digits()
    sys.set_int_max_str_digits(0)
    try:
        return int(digits)
    finally:
        sys.set_int_max_str_digits(lim)


def safe_str(v):
    """str(v), or a hexadecimal rendering when the value is beyond the interpreter's int->str limit"""
    try:
        return str(v)
    except ValueError:
        if isinstance(v, Fraction):
            return f"0x{v.numerator:x}/0x{v.denominator:x}"
        return f"0x{v:x}"


def over_int_limit(text):
    """does the text contain a digit run longer than the interpreter's int(str) limit?"""
    import re
    import sys

    lim = sys.get_int_max_str_digits()
    return bool(lim) and any(len(m) > lim for m in re.findall(r"[0-9]+", text))


def V(name):
    return ("Variable", name, None, None)


def U(kind, a):
    return (kind, False, None, a)


def B(kind, a, b):
    return (kind, None, a, b)


_BIN = {"+": "Add", "-": "Subtract", "*": "Multiply", "/": "Divide", "^": "Power", "=": "Equal"}
FIRST_FACTOR = ("V", "F", "(")


class RefParser:
    def __init__(self, toks, right_assoc_muldiv=False, dup_last_factor=False, funcs=None):
        self.funcs = FUNCS if funcs is None else funcs
        self.t = [t for t in toks if t[0] != "P"]
        if not self.t or self.t[-1][0] != "EOF":
            self.t.append(("EOF", ""))
        self.i = 0
        self.ra = right_assoc_muldiv
        self.dup = dup_last_factor
        self.prods = set()

    def k(self):
        return self.t[self.i][0]

    def eat(self, k):
        if self.k() != k:
            raise Reject(f"expected {k}, found {self.k()}")
        v = self.t[self.i][1]
        self.i += 1
        return v

    def start(self):
        if self.k() == "EOF":
            raise Reject("empty input")
        e = self.equal()
        if self.k() != "EOF":
            raise Reject("trailing tokens")
        return e

    def equal(self):
        e = self.add()
        while self.k() == "=":
            self.eat("=")
            self.prods.add("equal")
            e = B("Equal", e, self.add())
        return e

    def add(self):
        e = self.mult()
        while self.k() in ("+", "-"):
            op = self.eat(self.k())
            self.prods.add("add" + op)
            e = B(_BIN[op], e, self.mult())
        return e

    def mult(self):
        e = self.exp()
        while self.k() in ("*", "/"):
            op = self.eat(self.k())
            self.prods.add("mult" + op)
            if self.ra:
                e = B(_BIN[op], e, self.mult())
            else:
                e = B(_BIN[op], e, self.exp())
        return e

    def exp(self):
        e = self.unary()
        if self.k() == "^":
            self.eat("^")
            self.prods.add("exp^")
            e = B("Power", e, self.unary())
        return e

    def unary(self):
        neg = False
        if self.k() == "-":
            self.eat("-")
            neg = True
        if self.k() == "C":
            txt = self.eat("C")
            e = C(txt, neg)
            if neg:
                self.prods.add("negative-literal")
            neg = False
            if self.k() == "!":
                self.eat("!")
                self.prods.add("factorial")
                e = U("Factorial", e)
            elif self.k() in FIRST_FACTOR:
                self.prods.add("coefficient*factors")
                e = B("Multiply", e, self.factors())
        elif self.k() in FIRST_FACTOR:
            e = self.factors()
        else:
            raise Reject("operand expected")
        if neg:
            self.prods.add("negate")
            return U("Negate", e)
        return e

    def factors(self):
        fs = []
        while self.k() in FIRST_FACTOR:
            if self.k() == "V":
                fs.append(V(self.eat("V")))
            elif self.k() == "F":
                name = self.eat("F")
                self.eat("(")
                a = self.add()
                self.eat(")")
                self.prods.add("function")
                fs.append(U(self.funcs[name], a))
            else:
                self.eat("(")
                a = self.add()
                self.eat(")")
                self.prods.add("parens")
                fs.append(a)
        if self.k() == "!":
            raise Reject("factorial of a non-literal")
        if len(fs) > 1:
            self.prods.add("implicit-product")
        if self.k() == "^":
            self.eat("^")
            r = self.unary()
            self.prods.add("factor^" if len(fs) == 1 else "factors^last")
            pw = B("Power", fs[-1], r)
            if self.dup and len(fs) > 1:
                e = pw
                for f in fs:
                    e = B("Multiply", e, f)
                return e
            fs[-1] = pw
        e = fs[0]
        for f in fs[1:]:
            e = B("Multiply", e, f)
        return e


def ref_parse(text, **switches):
    """Returns (ast, productions used).  Raises Reject / BadNumber / BadChar."""
    p = RefParser(ref_tokenize(text, keep_padding=False, funcs=switches.get("funcs")), **switches)
    ast = p.start()
    return ast, p.prods


def leaves(s, out=None):
    """multiset (sorted list) of operand leaves of a shadow: ('C', value) / ('V', name)"""
    top = out is None
    if out is None:
        out = []
    if s is not None:
        if s[0] == "Constant":
            out.append(("C", safe_str(s[1][1])))
        elif s[0] == "Variable":
            out.append(("V", s[1]))
        else:
            leaves(s[2], out)
            leaves(s[3], out)
    if top:
        out.sort()
    return out


def strip_tags(s):
    """shadow -> value-level shadow (same as shadow.vshadow of a live tree)"""
    if s is None:
        return None
    k, p, l, r = s
    if k == "Constant":
        p = p[1]
    elif k != "Variable":
        p = None
    return (k, p, strip_tags(l), strip_tags(r))
