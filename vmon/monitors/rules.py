"""M-apply / M-can / M-find -- monitors on the nine rule classes.

M-apply is shared by C01, C02, C04, C06, C07, C08 and C09; `CHECKS` selects which
verdict components are computed (each costs time), every violation is tagged with the
property it belongs to and the Recorder keeps only those of the property under check.
"""
import random

from .. import contracts, core
from ..oracles import exact as X
from ..oracles import printer as PR
from ..oracles import shadow as S

CHECKS = set()          # subset of {"value", "equation", "structure", "print", "apply"}
HINTS = []              # assignments known to solve the equation under test (set by workloads)
EPISODE = {"folded": False}   # sticky: some earlier step of the current episode folded floats
MAX_CONST = 10 ** 10

RULE_CODES = {
    "AssociativeSwapRule": "AG", "BalancedMoveRule": "BM", "CommutativeSwapRule": "CS", "ConstantsSimplifyRule": "CA",
    "DistributiveFactorOutRule": "DF", "DistributiveMultiplyRule": "DM", "MultiplicativeInverseRule": "MI",
    "RestateSubtractionRule": "RS", "VariableMultiplyRule": "VM",
}


def new_lineage():
    """call when a workload starts on a new start tree: the fold map is per lineage (the same
    double can stand for different exact values in unrelated expressions)"""
    X.EXACT.clear()
    EPISODE["folded"] = False
    EPISODE["underflow"] = False


def rule_classes():
    import mathy_core.rules as R

    return [getattr(R, n) for n in RULE_CODES]


def rule_instances():
    import mathy_core.rules as R

    return [
        ("AG", R.AssociativeSwapRule()), ("CS", R.CommutativeSwapRule()), ("CS:np", R.CommutativeSwapRule(preferred=False)),
        ("CA", R.ConstantsSimplifyRule()), ("DF", R.DistributiveFactorOutRule()), ("DF:c", R.DistributiveFactorOutRule(constants=True)),
        ("DM", R.DistributiveMultiplyRule()), ("MI", R.MultiplicativeInverseRule()), ("RS", R.RestateSubtractionRule()),
        ("VM", R.VariableMultiplyRule()), ("BM", R.BalancedMoveRule()),
    ]


def rule_label(rule):
    code = RULE_CODES.get(type(rule).__name__, type(rule).__name__)
    if code == "CS" and getattr(rule, "preferred", True) is False:
        code += ":np"
    if code == "DF" and getattr(rule, "constants", False) is True:
        code += ":c"
    return code


def make_rule(label):
    for l, r in rule_instances():
        if l == label:
            return r
    raise KeyError(label)


_REF_POOL = {}
_REF_CALLS = [0]


def fresh_like(rule):
    """an instance of the same rule with the same options that has no history with the tree at
    hand: the reference for 'what does this rule answer for this tree'.  Constructing an object is
    itself an event (a constructor may reset state shared by all instances), so the reference is a
    brand-new instance only in alternating blocks of 400 requests; in the other blocks nothing is
    constructed and a pooled instance per label is used, which is replaced whenever a new-instance
    block begins (its own history stays short and never includes the trees of the quiet block's
    beginning twice)."""
    label = rule_label(rule)
    _REF_CALLS[0] += 1
    if (_REF_CALLS[0] // 400) % 2 == 0:
        _REF_POOL.clear()
        return make_rule(label)
    ref = _REF_POOL.get(label)
    if ref is None:
        ref = _REF_POOL[label] = make_rule(label)
    return ref


def raw_can(rule, node):
    f = type(rule).can_apply_to
    f = getattr(f, "__vmon_original__", f)
    return f(rule, node)


def type_tag(rule, node):
    """the rule's own classification arm (evidence only)"""
    gt = getattr(rule, "get_type", None)
    if gt is None:
        code = rule_label(rule)
        if code.startswith("CS"):
            k = S.kind(node)
            l = node.left
            if k == "Equal":
                return "equation-flip"
            if l is not None and S.kind(l) == k and k in ("Add", "Multiply"):
                return "chain-" + k.lower()
            return "simple-" + k.lower()
        if code == "AG":
            p = node.parent
            side = "left" if p is not None and p.left is node else "right"
            return f"{S.kind(node).lower()}-{side}-child"
        if code == "DM":
            return "sum-on-left" if S.kind(node.left) == "Add" else "sum-on-right"
        return "-"
    try:
        t = gt(node)
    except Exception:
        return "get_type-raises"
    if isinstance(t, tuple):
        t = t[0]
    return str(t)


def _max_abs_const(sh):
    m = 0
    for tag, v in S.constants(sh):
        if isinstance(v, X.Fraction):
            a = abs(v)
            if a > m:
                m = a
    return m


def witness_of(snap, extra):
    w = {
        "rule": snap["label"], "tag": snap["tag"], "node_index": snap["index"], "before": snap["text"],
        "tree": S.to_json(snap["before"]),
    }
    if snap.get("dup_ids"):
        w["ids_preorder"] = snap["dup_ids"]   # only recorded when ids repeat within the tree
    w.update(extra)
    return w


# ------------------------------------------------------------------ M-apply

def attach_apply():
    for cls in rule_classes():
        contracts.attach(cls, "apply_to", pre=_pre_apply, post=_post_apply)


def _pre_apply(self, node):
    root = S.root_of(node)
    before = S.shadow(root)
    path = S.path_from_root(node)
    order = S.nodes_inorder(root)
    index = next((i for i, n in enumerate(order) if n is node), -1)
    label = rule_label(self)
    ids = [getattr(n, "id", None) for n in S.nodes_preorder(root)]
    dup_ids = ids if len(set(ids)) < len(ids) else None
    try:
        ref = fresh_like(self)
        can = bool(raw_can(ref, node))
    except Exception as e:
        ref, can = self, None
    return {
        "rule": self, "label": label, "before": before, "path": path, "index": index, "can": can,
        "tag": type_tag(ref, node) if can else "-", "text": S.text_of(root), "node_kind": S.kind(node),
        "parent_kind": S.kind(node.parent) if node.parent is not None else "root",
        "node_shadow": S.shadow(node), "hints": list(HINTS), "dup_ids": dup_ids,
        "bm_source": (root, S.idshadow(root)) if label == "BM" and "structure" in CHECKS else None,
    }


def _int_beyond_float_meets_float(region):
    """the rewritten node holds an exact integer constant too large for a double (|n| >= 2^1024) together
    with a float constant or under a division: Python arithmetic must convert the integer and refuses"""
    cs = S.constants(region)
    huge = any("int" in tag and isinstance(v, X.Fraction) and v.denominator == 1 and abs(v) >= 2 ** 1024 for tag, v in cs)
    floaty = any("float" in tag for tag, v in cs)

    def has(kinds, s):
        return s is not None and (s[0] in kinds or has(kinds, s[2]) or has(kinds, s[3]))

    return huge and (floaty or has(("Divide", "Power"), region))


def _post_apply(snap, a, k, res, exc):
    rec = core.REC
    label, tag = snap["label"], snap["tag"]
    if snap["can"] is not True:
        rec.skip("apply_to on a node the rule does not report applicable")
        return
    rec.ev()
    arm = f"{label}/{tag}"
    rec.arm("apply:" + arm)
    rec.arm("ctx:" + label + "/parent-" + snap["parent_kind"])
    # ---------------- C06: applicable => appliable
    from mathy_core.expressions import MathExpression

    if exc is not None:
        if label == "CA" and isinstance(exc, OverflowError) and _int_beyond_float_meets_float(snap["node_shadow"]):
            arm = "CA/int-beyond-float-range-meets-float"      # one mechanism whatever the arrangement (see known_findings.json)
        rec.violation("C06", f"apply-raises/{arm}/{type(exc).__name__}", "a rule that reported applicable raised when applied",
                      witness_of(snap, {"exception": f"{type(exc).__name__}: {str(exc)[:200]}",
                                        "summary": f"{label} on node {snap['index']} of '{snap['text']}' raised {type(exc).__name__}: {str(exc)[:80]}"}))
        return
    result = getattr(res, "result", None)
    if not isinstance(result, MathExpression):
        rec.violation("C06", f"apply-no-result/{arm}", "apply_to returned a change whose result is not an expression",
                      witness_of(snap, {"summary": f"{label} on '{snap['text']}' returned result={result!r}"}))
        return
    try:
        after_root = S.root_of(result)
        after = S.shadow(after_root)
    except RecursionError:
        w = witness_of(snap, {"summary": f"{label} on node {snap['index']} of '{snap['text']}' produced a cyclic tree"})
        rec.violation("C07", f"structure/{arm}/cyclic", "rewritten tree is cyclic", w)
        # a cyclic result has no value, no solution set and no text form either
        if "value" in CHECKS and snap["before"][0] != "Equal":
            rec.violation("C01", f"value/{arm}/cyclic-result", "the rewritten tree is cyclic: it denotes no expression at all", w)
        if "equation" in CHECKS and snap["before"][0] == "Equal":
            rec.violation("C02", f"equation/{arm}/cyclic-result", "the rewritten equation is cyclic: it denotes no equation at all", w)
        if "print" in CHECKS:
            rec.violation("C04", f"print/cyclic-result/{label}", "the rewritten tree is cyclic and cannot be printed", w)
        return
    snap["after"] = after
    snap["after_root"] = after_root
    snap["after_text"] = S.text_of(after_root)
    changed = after != snap["before"]
    if not changed:
        rec.arm("apply:unchanged-tree")
    if snap.get("bm_source") is not None and after_root is not snap["bm_source"][0]:
        # balanced move clones the equation itself and rewrites the clone: the tree of the node it
        # was GIVEN is the tree the copy was cloned from, and stays exactly as it was (links included)
        src_root, src_ids = snap["bm_source"]
        rec.arm("original:bm-source-checked")
        try:
            now_ids = S.idshadow(src_root)
        except RecursionError:
            now_ids = None
        if now_ids != src_ids:
            rec.violation("C07", "original-modified/BM", "the tree the rewritten copy was cloned from was modified",
                          witness_of(snap, {"after": snap["after_text"], "summary": f"BM on node {snap['index']} of '{snap['text']}': the tree of the node it was given "
                                            f"(which it clones before rewriting) has different links / parent pointers afterwards"}))
    key_case = (label, tag, snap["before"], snap["index"])
    if "structure" in CHECKS:
        # the caller reads the rewritten tree through the library's own root query
        # (`change.result.get_root()`): it is the parentless node the links lead to, for the
        # result and for the outermost leaves of the tree alike (whatever was asked before)
        rec.arm("root-query:after-apply")
        probes = [result]
        n = after_root
        while n.left is not None or n.right is not None:
            n = n.left if n.left is not None else n.right
        probes.append(n)
        n = after_root
        while n.left is not None or n.right is not None:
            n = n.right if n.right is not None else n.left
        probes.append(n)
        for p_ in probes:
            try:
                got = p_.get_root()
            except Exception as e:  # noqa: BLE001
                got = e
            if got is not after_root:
                rec.violation("C07", f"structure/{label}/root-query", "get_root() on the rewritten tree does not answer the node its parent links lead to",
                              witness_of(snap, {"after": snap["after_text"],
                                                "summary": f"{label} on node {snap['index']} of '{snap['text']}' -> '{snap['after_text']}': get_root() of "
                                                           f"'{S.text_of(p_)[:40]}' answers {('a node printing ' + repr(S.text_of(got)[:60])) if hasattr(got, 'parent') else repr(got)[:80]}, "
                                                           f"not the root of the tree it is in"}))
                break
        _structure(rec, snap, arm, key_case, changed)
    if "value" in CHECKS or "equation" in CHECKS:
        _values(rec, snap, arm, key_case, changed)
    if "print" in CHECKS:
        check_print(rec, after, snap["after_text"], ("C04",), witness_of(snap, {"after": snap["after_text"]}), origin="rewrite:" + label)
    if "apply" in CHECKS:
        rec.nontrivial(("apply", key_case))


# ---------------- C07

def _structure(rec, snap, arm, key_case, changed):
    after_root, after, before = snap["after_root"], snap["after"], snap["before"]
    label = snap["label"]
    problems = S.audit(after_root, expr=True)
    rec.arm("audit:run")
    rec.arm("audit:nodes", S.size(after))
    if problems:
        rec.violation("C07", f"structure/{arm}/audit", "rewritten tree is not structurally sound",
                      witness_of(snap, {"after": snap["after_text"], "problems": problems[:5],
                                        "summary": f"{label} on node {snap['index']} of '{snap['text']}' -> '{snap['after_text']}': {problems[0]}"}))
        return
    va, vb = S.variables(after), S.variables(before)
    if va != vb:
        rec.violation("C07", f"structure/{arm}/variables", "the set of variables changed",
                      witness_of(snap, {"after": snap["after_text"],
                                        "summary": f"{label} on '{snap['text']}' -> '{snap['after_text']}': variables {sorted(vb)} -> {sorted(va)}"}))
        return
    # context: subtrees hanging off the path root -> anchor must be intact and in place
    path = snap["path"]
    if path is None:
        rec.skip("structure: inconsistent parent chain at entry")
        return
    if label == "BM":
        rec.arm("context:bm-whole-equation")
        # the move concerns the node it was asked about: for an addition move, the side that held the
        # node has one top-level addend equal to the node's subtree FEWER afterwards (the same term
        # may occur elsewhere too -- clones of one piece on both sides, duplicates left by earlier
        # rewrites -- and moving one of those instead leaves the requested node where it was)
        if snap["tag"] == "TYPE_ADDITION" and path and before[0] == "Equal" and after[0] == "Equal" and not _bm_structural(snap):
            side = 2 if path[0] == "L" else 3
            term = S.vshadow_of(snap["node_shadow"]) if hasattr(S, "vshadow_of") else snap["node_shadow"]

            def addends(t, sign=1, out=None):
                out = [] if out is None else out
                if t is None:
                    return out
                if t[0] == "Add":
                    addends(t[2], sign, out)
                    addends(t[3], sign, out)
                elif t[0] == "Subtract":
                    addends(t[2], sign, out)
                    out.append((-sign, t[3]))
                else:
                    out.append((sign, t))
                return out

            nb = sum(1 for sg, t in addends(before[side]) if sg > 0 and t == snap["node_shadow"])
            na = sum(1 for sg, t in addends(after[side]) if sg > 0 and t == snap["node_shadow"])
            rec.arm("context:bm-moved-the-requested-addend:checked")
            if nb >= 1 and na != nb - 1:
                rec.violation("C07", f"structure/{arm}/moved-another-node", "a balanced move left the node it was asked about in place",
                              witness_of(snap, {"after": snap["after_text"],
                                                "summary": f"BM on node {snap['index']} of '{snap['text']}' -> '{snap['after_text']}': the {'left' if side == 2 else 'right'} side "
                                                           f"had {nb} top-level addend(s) '{S.text_of(S.build(snap['node_shadow']))}' and still has {na}"}))
                return
    else:
        anchor_len = len(path) - (2 if label == "AG" else 1)
        b, a = before, after
        ok = True
        compared = 0
        for i in range(max(anchor_len + 1, 0)):
            if a is None or b is None or a[0] != b[0] or a[1] != b[1]:
                ok = False
                why = f"ancestor {i} on the path changed from {b[0] if b else None} to {a[0] if a else None}"
                break
            on = path[i]
            off_b = b[3] if on == "L" else b[2]
            off_a = a[3] if on == "L" else a[2]
            if off_b != off_a:
                ok = False
                why = f"the subtree hanging off the path at depth {i} changed"
                break
            compared += 1
            b = b[2] if on == "L" else b[3]
            a = a[2] if on == "L" else a[3]
        rec.arm("context:subtrees-compared", compared)
        if not ok:
            rec.violation("C07", f"structure/{arm}/context", "a subtree outside the rewritten neighbourhood changed or moved",
                          witness_of(snap, {"after": snap["after_text"],
                                            "summary": f"{label} on node {snap['index']} of '{snap['text']}' -> '{snap['after_text']}': {why}"}))
            return
    if changed:
        rec.nontrivial(("structure", key_case))


# ---------------- C01 / C02

def _values(rec, snap, arm, key_case, changed):
    before, after, label = snap["before"], snap["after"], snap["label"]
    rng = random.Random(core.h64((label, snap["index"], snap["text"])))
    # float folds: work out the exact value every new float constant stands for, so that the
    # comparison stays exact; tolerance is only the fallback for unresolved folds
    n_new, n_res = X.resolve_folds(snap["node_shadow"], before, after)
    if n_new:
        rec.arm("value:folded-step")
        rec.arm("value:fold-resolved-exactly" if n_res == n_new else "value:fold-unresolved")
        EPISODE["folded"] = True   # matters only for comparisons with the START of an episode
    # exact first; the tolerance is the fallback whenever this lineage contains folded floats at
    # all: one double can stand for different exact values at different places (1.0 from
    # '10 * 0.1' and 1.0 from folding that constant cubed), so the exactification map is a
    # best effort, not an invariant
    tol = n_new > 0 or bool(X.EXACT) or EPISODE["folded"]
    if n_new and label == "CA" and not S.variables(snap["node_shadow"]):
        # a fold whose exact result lies in the underflow region of a double (0.0000001^63 is 1e-441) legitimately
        # comes out as 0.0 or a denormal: no verdict about such a step
        try:
            tiny = X.ev(snap["node_shadow"], {})
            if not tiny.approx and 0 < abs(tiny.v) < X.Fraction(1, 10 ** 290):
                rec.skip("value: fold in the underflow region")
                rec.arm("value:underflow-fold-skip")
                EPISODE["folded"] = True
                EPISODE["underflow"] = True
                return
        except Exception:
            pass
    if n_new == 1 and n_res == 0 and label == "CA":
        off = X.fold_off(snap["node_shadow"], before, after)
        if off is not None and _fold_off(rec, snap, arm, off):
            return
    snap["xbefore"], snap["xafter"] = X.exactify(before), X.exactify(after)
    names = S.variables(before) | S.variables(after)
    if S.has_nonfinite(before):
        rec.skip("value: non-finite constant in the input tree")
        return
    if before[0] == "Equal":
        if "equation" in CHECKS:
            _equation(rec, snap, arm, key_case, changed, rng, tol, names)
        if "value" in CHECKS and label != "BM" and snap["path"]:
            # a rewrite strictly inside one side: that side must keep its value
            side = 2 if snap["path"][0] == "L" else 3
            if after[0] == "Equal":
                _value_pair(rec, snap, arm, key_case, changed, snap["xbefore"][side], snap["xafter"][side], rng, tol, "side-of-equation", raw=(before[side], after[side]))
        return
    if "value" in CHECKS:
        if after[0] == "Equal":
            rec.violation("C01", f"value/{arm}/became-equation", "an expression was rewritten into an equation",
                          witness_of(snap, {"after": snap["after_text"], "summary": f"{label}: '{snap['text']}' -> '{snap['after_text']}'"}))
            return
        _value_pair(rec, snap, arm, key_case, changed, snap["xbefore"], snap["xafter"], rng, tol, "expression", raw=(before, after))
        if "evaluate-after" in CHECKS:
            _evaluate_after(rec, snap, rng)


def _fold_off(rec, snap, arm, off):
    """the step's only new constant is not the rounded result of any operation on the constants it
    replaces: not rounding slack, so the step is compared exactly, every double standing for its own
    binary value (no tolerance, no exactification)."""
    before, after, label = snap["before"], snap["after"], snap["label"]
    F, q, rel = off
    rec.arm("value:fold-not-a-rounded-result")
    names = S.variables(before) | S.variables(after)
    rng = random.Random(core.h64(("off", snap["text"], snap["index"])))
    sig = list(snap["hints"]) + X.assignments(names, rng, n_extra=2)
    note = f"the new constant {float(F)!r} is not the rounded result of any operation on the constants it replaces (nearest: {float(q)!r}, relative distance {float(rel):.3g})"
    if before[0] == "Equal" and after[0] == "Equal":
        if "equation" not in CHECKS:
            return False
        allsig = sig + X.witnesses([before, after], names, sig)
        r = X.compare_equations(before, after, allsig, False, False)
        if r["diffs"]:
            s0, tb, ta = r["diffs"][0]
            rec.violation("C02", f"equation/{arm}/solutions", "an applicable rewrite changed the solution set of the equation",
                          witness_of(snap, {"after": snap["after_text"], "sigma": X.sigma_json(s0), "holds_before": tb, "holds_after": ta, "fold_off": True,
                                            "summary": f"{label}[{snap['tag']}] on node {snap['index']} of '{snap['text']}' -> '{snap['after_text']}': holds={tb} before, {ta} after at {X.sigma_json(s0)}; {note}"}))
            return True
        return False
    if before[0] != "Equal" and after[0] != "Equal" and "value" in CHECKS:
        r = X.compare_values(before, after, sig, False)
        if r["diffs"]:
            s0, vb, va = r["diffs"][0]
            rec.violation("C01", f"value/{arm}", "an applicable rewrite changed the value of the expression",
                          witness_of(snap, {"after": snap["after_text"], "sigma": X.sigma_json(s0), "value_before": str(vb), "value_after": str(va), "fold_off": True,
                                            "summary": f"{label}[{snap['tag']}] on node {snap['index']} of '{snap['text']}' -> '{snap['after_text']}': {note}"}))
            return True
    return False


def _integer_closed(sh):
    if sh is None:
        return True
    k, p, l, r = sh
    if k == "Constant":
        return "int" in p[0] and isinstance(p[1], X.Fraction) and p[1].denominator == 1
    if k == "Variable":
        return True
    if k in ("Add", "Subtract", "Multiply", "Negate"):
        return _integer_closed(l) and _integer_closed(r)
    if k == "Power":
        return _integer_closed(l) and r is not None and r[0] == "Constant" and "int" in r[1][0] and isinstance(r[1][1], X.Fraction) and r[1][1].denominator == 1 and 0 <= r[1][1] <= 64
    return False


def _normal_range(fracs):
    """every new float constant of the step lies well inside the normal range of a double (near under- or
    overflow one operation may legitimately lose everything)"""
    lo, hi = X.Fraction(1, 10 ** 290), X.Fraction(10 ** 290)
    return all(lo < abs(f) < hi for f in fracs)


def _evaluate_after(rec, snap, rng):
    """the value of the rewritten tree as the implementation's own evaluate() computes it (the value
    comparison above works on shadows with exact constants; a constant whose TYPE changed -- a
    numpy integer that wraps at 64 bits in later arithmetic -- only shows when the tree itself is
    evaluated).  Decided by the evaluation monitor's rules (C05), reported under this check."""
    from . import evalmon as ME
    from ..workloads import drive as D

    after_root, after = snap["after_root"], snap["after"]
    names = sorted(S.variables(after))
    ctx = {x: rng.choice([2, 3, 5, 7, -3, 10, 12, 99991, 2 ** 31, 10 ** 12]) for x in names}
    if S.size(after) > 60 or not D.safe_to_evaluate(after_root, ctx):
        return
    res = exc = None
    try:
        res = after_root.evaluate(ctx)
    except Exception as e:
        exc = e
    rec.arm("value:rewritten-tree-evaluated")
    ME.decide("C05", after_root, after, ctx, res, exc)
    if not names:
        # a tree of constants has a value without any assignment: the other call forms of 'no assignment' too
        for form in ((), (None,)):
            res = exc = None
            try:
                res = after_root.evaluate(*form)
            except Exception as e:
                exc = e
            rec.arm("value:rewritten-tree-evaluated-without-a-context")
            ME.decide("C05", after_root, after, {}, res, exc)


def _value_pair(rec, snap, arm, key_case, changed, sb, sa, rng, tol, what, raw=None):
    label = snap["label"]
    names = S.variables(sb) | S.variables(sa)
    sig = X.assignments(names, rng, n_extra=2)
    r = X.compare_values(sb, sa, sig, False)
    if r["diffs"] and tol:
        r = X.compare_values(sb, sa, sig, True)
        rec.arm("value:tolerant-fallback")
        if not r["diffs"] and raw is not None and _integer_closed(raw[0]):
            # the expression before the step is built from exact integers with + - * and whole non-negative powers
            # only: its value at integer points is an exact integer of any magnitude (C05), correct arithmetic on it
            # never rounds, and a result that stands for a different number is not rounding slack
            ints = [g for g in sig if all(v.denominator == 1 for v in g.values())]
            rr = X.compare_values(raw[0], raw[1], ints, False)
            rec.arm("value:integer-expression-compared-exactly")
            if rr["diffs"]:
                r = rr
        elif not r["diffs"] and raw is not None and _normal_range(X.new_floats(raw[0], raw[1])):
            # nothing beyond the wide tolerance: the step on its own, binary values of the doubles, narrow tolerance
            rr = X.compare_values(raw[0], raw[1], sig, "tight")
            rec.arm("value:single-step-binary-comparison")
            if rr["diffs"]:
                r = rr
    rec.arm("value:compared:" + what)
    if r["diffs"]:
        s0, vb, va = r["diffs"][0]
        key = f"value/{arm}" + ("" if what == "expression" else "/" + what)
        rec.violation("C01", key, "an applicable rewrite changed the value of the expression",
                      witness_of(snap, {"after": snap["after_text"], "sigma": X.sigma_json(s0), "value_before": str(vb), "value_after": str(va),
                                        "tolerant": tol,
                                        "summary": f"{label}[{snap['tag']}] on node {snap['index']} of '{snap['text']}' -> '{snap['after_text']}': {vb} != {va} at {X.sigma_json(s0)}"}))
        return
    if r["common"] >= (3 if names else 1):
        if r["undef_b"] == len(sig) and r["undef_a"] < len(sig):
            rec.arm("value:domain-collapse-diagnostic")
        if changed:
            rec.nontrivial(("value", key_case))
            rec.arm("value:nontrivial:" + arm)
            if r["approx"]:
                rec.arm("value:approximate-comparison")
    else:
        rec.skip(f"value: fewer than 3 common-domain points ({label})")
        if r["undef_b"] >= len(sig) - 1 and r["undef_a"] < len(sig) - 1:
            rec.arm("value:domain-collapse-diagnostic")


def _bm_structural(snap):
    """Statement of C02: a balanced addition move only moves a top-level addend of its
    side; a balanced division never divides by a zero constant."""
    path = snap["path"]
    before = snap["before"]
    problems = []
    if snap["tag"] == "TYPE_ADDITION" and path:
        # ancestors strictly between the root and the node
        b = before
        chain = []
        for i, on in enumerate(path):
            if i > 0:
                chain.append((b[0], path[i]))
            b = b[2] if on == "L" else b[3]
        for k, on in chain:
            if k == "Add":
                continue
            if k == "Subtract" and on == "L":
                continue
            problems.append(f"moved addend sits under {k}" + (" (right operand)" if k == "Subtract" else ""))
            break
    if snap["tag"] == "TYPE_CONST_OF_MULTIPLY":
        ns = snap["node_shadow"]
        if ns[0] == "Constant" and isinstance(ns[1][1], X.Fraction) and ns[1][1] == 0:
            problems.append("divides both sides by the constant 0")
    return problems


def _equation(rec, snap, arm, key_case, changed, rng, tol, names):
    before, after, label = snap["before"], snap["after"], snap["label"]
    if after[0] != "Equal":
        rec.violation("C02", f"equation/{arm}/not-an-equation", "rewriting an equation produced something that is not an equation",
                      witness_of(snap, {"after": snap["after_text"], "summary": f"{label}[{snap['tag']}]: '{snap['text']}' -> '{snap['after_text']}'"}))
        return
    if label == "BM":
        for p in _bm_structural(snap):
            kind = "zero-divisor" if "constant 0" in p else "not-top-level-addend/" + p.split("under ")[-1].split(" ")[0]
            rec.violation("C02", f"equation/BM/{snap['tag']}/{kind}", "balanced move " + p,
                          witness_of(snap, {"after": snap["after_text"], "summary": f"BM on node {snap['index']} of '{snap['text']}' -> '{snap['after_text']}': {p}"}))
            return
    xb, xa = snap.get("xbefore", before), snap.get("xafter", after)
    sig = list(snap["hints"]) + X.assignments(names, rng, n_extra=2)
    wit = X.witnesses([xb, xa], names, sig)
    allsig = sig + wit
    r = X.compare_equations(xb, xa, allsig, False, False)
    rec.arm("equation:compared")
    if r["diffs"] and tol:
        # a float fold whose exact value could not be worked out: truth values are not
        # comparable across it (a tolerance relative to magnitudes is not invariant under
        # legitimate rewrites such as cancelling a constant on both sides)
        rec.skip("equation: unresolved float fold")
        rec.arm("equation:unresolved-fold-skip")
        return
    if r["diffs"]:
        s0, tb, ta = r["diffs"][0]
        rec.violation("C02", f"equation/{arm}/solutions", "an applicable rewrite changed the solution set of the equation",
                      witness_of(snap, {"after": snap["after_text"], "sigma": X.sigma_json(s0), "holds_before": tb, "holds_after": ta,
                                        "summary": f"{label}[{snap['tag']}] on node {snap['index']} of '{snap['text']}' -> '{snap['after_text']}': holds={tb} before, {ta} after at {X.sigma_json(s0)}"}))
        return
    if r["common"] >= 3 and r["true_a"] >= 1:
        if changed:
            rec.nontrivial(("equation", key_case))
            rec.arm("equation:nontrivial:" + arm)
    elif r["common"] >= 3:
        rec.skip("equation: no witness satisfied the original equation")
        rec.arm("equation:no-witness:" + label)
    else:
        rec.skip("equation: fewer than 3 comparable points")


# ---------------- C04 (also used directly by parse-driven workloads)

def _evaluates_differently(rec, sh, text, rng):
    """'evaluates identically' taken literally for small trees of Python-typed constants: the library's own
    evaluate() on the tree and on the re-parsed text, at one assignment -- both raise, or both return the same
    number (1e-9 relative).  Returns a description of the disagreement, or None."""
    if S.size(sh) > 30 or sh[0] == "Equal" or any(not str(tag).startswith("bu:") for tag, _ in S.constants(sh)):
        return None
    names = sorted(S.variables(sh))
    ctx = {x: rng.choice([2, 3, 5, -3, 7, 0.5, 1, 4]) for x in names}
    if X.magnitude_bits(sh, {k: X.Fraction(v) for k, v in ctx.items()}) is None:
        return None

    def outcome(make):
        try:
            t = make()
            return ("value", t.evaluate(dict(ctx)))
        except RecursionError:
            return None
        except Exception as e:
            return ("raised", type(e).__name__)

    from .. import contracts as _c

    with _c.suspended():
        a = outcome(lambda: S.build(sh))
        b = outcome(lambda: PR._fresh_parse(text))
    if a is None or b is None:
        return None
    rec.arm("print:evaluated-on-both-sides")
    if a[0] != b[0]:
        return f"at {ctx} the tree gives {a[1]!r:.60}, the re-parsed text {b[1]!r:.60}"
    if a[0] == "value":
        try:
            x, y = float(a[1]), float(b[1])
        except Exception:
            return None
        if x != x and y != y:
            return None
        if x != y and not abs(x - y) <= 1e-9 * max(abs(x), abs(y)):
            return f"at {ctx} the tree evaluates to {a[1]!r:.40}, the re-parsed text to {b[1]!r:.40}"
    return None


def check_print(rec, sh, text, props, witness, origin):
    """print/re-parse oracle on one tree (shadow + its printed text)."""
    ok, why = PR.in_domain(sh)
    if not ok:
        rec.skip("print: " + why)
        return None
    rng = random.Random(core.h64(text))
    v, d, _ = PR.roundtrip(sh, text, rng, hints=HINTS)
    rec.arm("print:checked:" + origin.split(":")[0])
    for bg in S.bigrams(sh):
        rec.arm("printpair:%s/%s/%s" % bg)
    if v in ("rejected", "diff", "print-raises"):
        key, ctext, cdetail = PR.culprit(sh)
        if key is None:
            key = "print/whole-tree-only/" + v
        w = dict(witness)
        w.update({"printed": text, "verdict": v, "detail": d, "culprit_text": ctext, "culprit_detail": cdetail, "tree": S.to_json(sh),
                  "summary": f"{origin}: tree printed as '{text}' {('is rejected: ' + d) if v == 'rejected' else ('reads back differently: ' + d)} (culprit '{ctext}')"})
        for p in props:
            rec.violation(p, key, "text form does not parse back to an equivalent expression", w)
        return False
    if v == "same":
        if S.size(sh) >= 2:
            rec.nontrivial(("print", text))
        bad = _evaluates_differently(rec, sh, text, rng)
        if bad:
            w = dict(witness)
            w.update({"printed": text, "verdict": "evaluates-differently", "detail": bad, "tree": S.to_json(sh),
                      "summary": f"{origin}: tree printed as '{text}': the tree and the re-parsed text do not evaluate alike: {bad}"})
            for p in props:
                rec.violation(p, "print/evaluates-differently", "text form does not parse back to an equivalent expression", w)
            return False
        return True
    rec.skip("print: " + d.split(" (")[0][:40])
    return None


# ------------------------------------------------------------------ M-can / M-find (C06)

def attach_can():
    for cls in rule_classes():
        contracts.attach(cls, "can_apply_to", pre=_pre_can, post=_post_can)


def _has_wide_int(sh):
    return any("int" in tag and isinstance(v, X.Fraction) and v.denominator == 1 and abs(v) >= 2 ** 64 for tag, v in S.constants(sh))


def _pre_can(self, node):
    root = S.root_of(node)
    return {"ids": S.idshadow(root), "root": root, "path": S.path_from_root(node), "sh": S.shadow(root)}


def _post_can(snap, a, k, res, exc):
    rec = core.REC
    self, node = a[0], a[1]
    label = rule_label(self)
    rec.ev()
    rec.arm("can:asked:" + label)
    root = snap["root"]
    text = None

    def w(extra):
        d = {"rule": label, "tree": S.to_json(snap["sh"]), "node_path": "".join(snap["path"] or []), "before": S.text_of(S.build(snap["sh"]))}
        d.update(extra)
        return d

    if exc is not None:
        if label.startswith("DF") and isinstance(exc, TypeError) and "sqrt" in str(exc) and _has_wide_int(snap["sh"]):
            label = "DF/int-beyond-64-bits"      # one mechanism (see known_findings.json), whatever the option
        rec.violation("C06", f"can-raises/{label}/{type(exc).__name__}", "can_apply_to raised",
                      w({"summary": f"{label}.can_apply_to raised {type(exc).__name__}: {str(exc)[:80]} on '{S.text_of(S.build(snap['sh']))}'"}))
        return
    if S.root_of(node) is not root or S.idshadow(root) != snap["ids"]:
        rec.violation("C06", f"can-impure/{label}", "asking whether a rule applies modified the tree",
                      w({"summary": f"{label}.can_apply_to modified '{S.text_of(S.build(snap['sh']))}' (node path {''.join(snap['path'] or [])})"}))
        return
    if res:
        rec.arm("can:yes:" + label)
    # same answer when asked again, and on an independent copy
    f = type(self).can_apply_to
    f = getattr(f, "__vmon_original__", f)
    again = f(self, node)
    if bool(again) != bool(res):
        rec.violation("C06", f"can-unstable/{label}", "the same question got two different answers",
                      w({"summary": f"{label}.can_apply_to answered {res} then {again} on '{S.text_of(S.build(snap['sh']))}'"}))
        return
    try:
        stateless = raw_can(fresh_like(self), node)
    except Exception:
        stateless = res
    rec.arm("can:fresh-instance-asked")
    if bool(stateless) != bool(res):
        rec.violation("C06", f"can-depends-on-history/{label}", "a rule instance that was used before answers differently from a fresh instance of the same rule",
                      w({"summary": f"{label}.can_apply_to answered {res}, a fresh {label} instance answers {stateless} for the node at {''.join(snap['path'] or []) or 'root'} of '{S.text_of(S.build(snap['sh']))}'"}))
        return
    if snap["path"] is not None:
        copy = S.build(snap["sh"])
        twin = S.follow(copy, snap["path"])
        other = f(self, twin)
        rec.arm("can:copy-asked")
        if bool(other) != bool(res):
            rec.violation("C06", f"can-copy-differs/{label}", "an identical tree got a different answer",
                          w({"summary": f"{label}.can_apply_to answered {res} on the tree and {other} on an identical copy of '{S.text_of(copy)}'"}))
            return
    if res:
        rec.nontrivial(("can", label, snap["sh"], tuple(snap["path"] or ())))


def attach_find():
    from mathy_core.rule import BaseRule

    def raw_can(rule):
        # the reference answers come from a FRESH instance of the rule (stateless), asked through
        # the unmonitored original method
        ref = fresh_like(rule)
        f = type(ref).can_apply_to
        f = getattr(f, "__vmon_original__", f)
        return lambda n: f(ref, n)

    def post_nodes(snap, a, k, res, exc):
        rec = core.REC
        self, expr = a[0], a[1]
        label = rule_label(self)
        rec.ev()
        rec.arm("find_nodes:" + label)
        order = S.nodes_inorder(expr)
        can = raw_can(self)
        wit = {"rule": label, "tree": S.to_json(S.shadow(S.root_of(expr))), "before": S.text_of(expr)}
        if exc is not None:
            wit["summary"] = f"{label}.find_nodes raised {type(exc).__name__} on '{S.text_of(expr)}'"
            if label.startswith("DF") and isinstance(exc, TypeError) and "sqrt" in str(exc) and _has_wide_int(S.shadow(S.root_of(expr))):
                rec.arm("find:raised-through-a-raising-can_apply_to")     # reported once, where it is raised (can-raises/DF/int-beyond-64-bits)
                return
            rec.violation("C06", f"find_nodes-raises/{label}", "find_nodes raised", wit)
            return
        want = [n for n in order if can(n)]
        if len(res) != len(want) or any(x is not y for x, y in zip(res, want)):
            wit["summary"] = f"{label}.find_nodes on '{S.text_of(expr)}' returned in-order indices {[_ix(order, n) for n in res]} expected {[_ix(order, n) for n in want]}"
            rec.violation("C06", f"find_nodes-set/{label}", "find_nodes does not return exactly the applicable nodes in in-order", wit)
            return
        bad = [(i, getattr(n, "r_index", None)) for i, n in enumerate(order) if getattr(n, "r_index", None) != i]
        if bad:
            wit["summary"] = f"{label}.find_nodes on '{S.text_of(expr)}': r_index of in-order node {bad[0][0]} is {bad[0][1]}"
            rec.violation("C06", f"find_nodes-rindex/{label}", "find_nodes records wrong in-order indices", wit)
            return
        if want:
            rec.arm("find_nodes:nonempty:" + label)

    def post_node(snap, a, k, res, exc):
        rec = core.REC
        self, expr = a[0], a[1]
        label = rule_label(self)
        rec.ev()
        rec.arm("find_node:" + label)
        order = S.nodes_inorder(expr)
        can = raw_can(self)
        if exc is not None and label.startswith("DF") and isinstance(exc, TypeError) and "sqrt" in str(exc) and _has_wide_int(S.shadow(S.root_of(expr))):
            rec.arm("find:raised-through-a-raising-can_apply_to")
            return
        try:
            want = next((n for n in order if can(n)), None)
        except Exception:
            want = None          # the question itself raises: reported by the can_apply_to monitor
        if exc is not None or res is not want:
            rec.violation("C06", f"find_node-first/{label}", "find_node does not return the first applicable node",
                          {"rule": label, "tree": S.to_json(S.shadow(S.root_of(expr))), "before": S.text_of(expr),
                           "summary": f"{label}.find_node on '{S.text_of(expr)}' returned index {_ix(order, res)} expected {_ix(order, want)}"})

    contracts.attach_hierarchy(BaseRule, "find_nodes", post=post_nodes)
    contracts.attach_hierarchy(BaseRule, "find_node", post=post_node)


def _ix(order, n):
    for i, x in enumerate(order):
        if x is n:
            return i
    return None
