"""M-visit / M-rot / M-query -- monitors on BinaryTreeNode and the MathExpression
look-ups.  Reference orders come from our own recursion over left/right."""
from .. import contracts, core
from ..oracles import shadow as S
from ..workloads.shapes import shape_of, shape_str

STOP = "stop"


def ref_order(n, order, depth, out):
    if n is None:
        return out
    if order == "pre":
        out.append((n, depth))
    ref_order(n.left, order, depth + 1, out)
    if order == "in":
        out.append((n, depth))
    ref_order(n.right, order, depth + 1, out)
    if order == "post":
        out.append((n, depth))
    return out


def _witness(node, extra):
    root = S.root_of(node)
    w = {"shape": shape_str(shape_of(root)), "node_path": _p(node)}
    w.update(extra)
    w["summary"] = f"shape {w['shape']} node {w['node_path'] or 'root'}: " + extra.get("got", "")
    return w


def attach_visits(prop="C14"):
    from mathy_core.tree import BinaryTreeNode

    def make(order, name):
        def around(orig, self, visit_fn, depth=0, data=None):
            rec = core.REC
            if not callable(visit_fn):
                return orig(self, visit_fn, depth, data)
            expect = ref_order(self, order, depth, [])
            seen = []
            stopped = [False]
            late = [0]

            wrong_data = [0]

            def spy(node, d, dat):
                if stopped[0]:
                    late[0] += 1
                if dat is not data:
                    wrong_data[0] += 1
                seen.append((node, d))
                r = visit_fn(node, d, dat)
                if r == STOP:
                    stopped[0] = True
                return r

            result = orig(self, spy, depth, data)
            rec.ev()
            rec.arm(f"visit:{order}")
            n_exp = len(seen) if stopped[0] else len(expect)
            ok = True
            got = ""
            if late[0]:
                ok, got = False, f"{late[0]} callbacks after the visitor returned STOP"
            elif wrong_data[0]:
                ok, got = False, f"{wrong_data[0]} callbacks received something else than the caller's data argument"
            elif len(seen) > len(expect) or len(seen) != n_exp or any(a[0] is not b[0] or a[1] != b[1] for a, b in zip(seen, expect)):
                ok = False
                got = "callback sequence " + str([(_idx(expect, s[0]), s[1]) for s in seen][:40]) + " expected " + str(
                    [(i, e[1]) for i, e in enumerate(expect)][:40]
                )
            elif stopped[0] and result != STOP:
                ok, got = False, f"visitor stopped but the visit returned {result!r}"
            elif not stopped[0] and result is not None:
                ok, got = False, f"complete visit returned {result!r}"
            if stopped[0]:
                rec.arm(f"visit:{order}:stopped")
            if not ok:
                rec.violation(prop, f"visit_{name}", f"{name} traversal does not follow the defining order / STOP contract",
                              _witness(self, {"order": order, "got": got, "stop_after": len(seen) if stopped[0] else None, "depth0": depth}))
            return result

        return around

    for order, name in (("pre", "preorder"), ("in", "inorder"), ("post", "postorder")):
        contracts.attach_hierarchy(BinaryTreeNode, f"visit_{name}", around=make(order, name))


def _p(node):
    p = S.path_from_root(node)
    return "?" if p is None else "".join(p)


def _idx(expect, node):
    for i, e in enumerate(expect):
        if e[0] is node:
            return i
    return -1


def attach_queries(prop="C14"):
    from mathy_core.tree import BinaryTreeNode
    from mathy_core.expressions import MathExpression

    def bad(self, name, got, want):
        core.REC.violation(prop, f"query_{name}", f"{name} disagrees with the link structure",
                           _witness(self, {"got": f"{name} -> {got} expected {want}"}))

    def post_root(snap, a, k, res, exc):
        self = a[0]
        core.REC.ev(); core.REC.arm("query:get_root")
        want = S.root_of(self)
        if exc is not None or res is not want:
            bad(self, "get_root", repr(exc) if exc else S.kind(res), "the parentless ancestor")

    def post_root_side(snap, a, k, res, exc):
        self = a[0]
        if self.parent is None:
            return
        core.REC.ev(); core.REC.arm("query:get_root_side")
        path = S.path_from_root(self)
        want = "left" if path and path[0] == "L" else "right"
        if exc is not None or res != want:
            bad(self, "get_root_side", repr(exc) if exc else res, want)

    def post_side(snap, a, k, res, exc):
        self, child = a[0], (a[1] if len(a) > 1 else k.get("child"))
        core.REC.ev(); core.REC.arm("query:get_side")
        if child is not None and child is self.left:
            want = "left"
        elif child is not None and child is self.right:
            want = "right"
        elif child is None:
            return
        else:
            want = ValueError
        if want is ValueError:
            if isinstance(exc, RecursionError):
                core.REC.skip("get_side: the error message renders a very deep tree (interpreter stack), nothing about sides")
            elif not isinstance(exc, ValueError):
                bad(self, "get_side", res if exc is None else repr(exc), "ValueError for a non-child")
        elif exc is not None or res != want:
            bad(self, "get_side", repr(exc) if exc else res, want)

    def post_sibling(snap, a, k, res, exc):
        self = a[0]
        core.REC.ev(); core.REC.arm("query:get_sibling")
        p = self.parent
        if p is None:
            want = None
        elif p.left is self:
            want = p.right
        elif p.right is self:
            want = p.left
        else:
            want = None
        if exc is not None or res is not want:
            bad(self, "get_sibling", repr(exc) if exc else S.kind(res), "the other child of the parent")

    def post_children(snap, a, k, res, exc):
        self = a[0]
        core.REC.ev(); core.REC.arm("query:get_children")
        want = [c for c in (self.left, self.right) if c is not None]
        if exc is not None or not isinstance(res, list) or len(res) != len(want) or any(x is not y for x, y in zip(res, want)):
            bad(self, "get_children", repr(exc) if exc else len(res), f"{len(want)} children left-first")

    def post_leaf(snap, a, k, res, exc):
        self = a[0]
        core.REC.ev(); core.REC.arm("query:is_leaf")
        want = self.left is None and self.right is None
        if exc is not None or bool(res) != want:
            bad(self, "is_leaf", repr(exc) if exc else res, want)

    contracts.attach_hierarchy(BinaryTreeNode, "get_root", post=post_root)
    contracts.attach_hierarchy(BinaryTreeNode, "get_root_side", post=post_root_side)
    contracts.attach_hierarchy(BinaryTreeNode, "get_side", post=post_side)
    contracts.attach_hierarchy(BinaryTreeNode, "get_sibling", post=post_sibling)
    contracts.attach_hierarchy(BinaryTreeNode, "get_children", post=post_children)
    contracts.attach_hierarchy(BinaryTreeNode, "is_leaf", post=post_leaf)

    def post_to_list(snap, a, k, res, exc):
        self = a[0]
        visit = a[1] if len(a) > 1 else k.get("visit", "preorder")
        if visit not in ("preorder", "inorder", "postorder"):
            return
        core.REC.ev(); core.REC.arm(f"query:to_list:{visit}")
        want = [n for n, _ in ref_order(self, {"preorder": "pre", "inorder": "in", "postorder": "post"}[visit], 0, [])]
        if exc is not None or len(res) != len(want) or any(x is not y for x, y in zip(res, want)):
            bad(self, f"to_list({visit})", repr(exc) if exc else f"{len(res)} nodes", f"the {len(want)} nodes in {visit}")

    def post_find_type(snap, a, k, res, exc):
        self = a[0]
        t = a[1] if len(a) > 1 else k.get("instanceType")
        core.REC.ev(); core.REC.arm("query:find_type")
        want = [n for n, _ in ref_order(self, "in", 0, []) if isinstance(n, t)]
        if exc is not None or len(res) != len(want) or any(x is not y for x, y in zip(res, want)):
            bad(self, "find_type", repr(exc) if exc else f"{len(res)} nodes", f"{len(want)} instances in in-order")

    def post_find_id(snap, a, k, res, exc):
        self = a[0]
        i = a[1] if len(a) > 1 else k.get("id")
        core.REC.ev(); core.REC.arm("query:find_id")
        want = None
        for n, _ in ref_order(self, "in", 0, []):
            if n.id == i:
                want = n
                break
        core.REC.arm("query:find_id:hit" if want is not None else "query:find_id:miss")
        if exc is not None or res is not want:
            bad(self, "find_id", repr(exc) if exc else ("None" if res is None else "another node"), "first in-order node with that id")

    contracts.attach_hierarchy(MathExpression, "to_list", post=post_to_list)
    contracts.attach_hierarchy(MathExpression, "find_type", post=post_find_type)
    contracts.attach_hierarchy(MathExpression, "find_id", post=post_find_id)


def attach_rotate(prop="C15"):
    from mathy_core.tree import BinaryTreeNode

    def pre(self):
        root = S.root_of(self)
        seq = [id(n) for n in S.nodes_inorder(root)]
        parent = self.parent
        grand = parent.parent if parent is not None else None
        side = None
        if parent is not None:
            side = "L" if parent.left is self else "R" if parent.right is self else "?"
        gside = None
        if grand is not None:
            gside = "L" if grand.left is parent else "R" if grand.right is parent else "?"
        inner = None
        if side == "L":
            inner = self.right
        elif side == "R":
            inner = self.left
        return {
            "root": root, "seq": seq, "parent": parent, "grand": grand, "side": side, "gside": gside,
            "ids": S.idshadow(root) if parent is None else None, "shape": shape_str(shape_of(root)),
            "path": _p(self), "inner": inner,
        }

    def post(snap, a, k, res, exc):
        self = a[0]
        rec = core.REC
        rec.ev()
        problems = []
        if exc is not None:
            problems.append(f"raised {exc!r}")
        elif res is not self:
            problems.append("did not return the rotated node")
        if snap["parent"] is None:
            rec.arm("rotate:root")
            if S.idshadow(S.root_of(self)) != snap["ids"]:
                problems.append("rotating a root changed the tree")
        elif snap["side"] == "?" or snap["gside"] == "?":
            rec.skip("rotate: inconsistent links at entry")
            return
        else:
            arm = f"rotate:{'left' if snap['side'] == 'L' else 'right'}-child:{'no-grandparent' if snap['grand'] is None else 'under-' + snap['gside']}:{'inner' if snap['inner'] is not None else 'no-inner'}"
            rec.arm(arm)
            rec.nontrivial(("rot", snap["shape"], snap["path"]))
            new_root = S.root_of(self)
            try:
                seq = [id(n) for n in S.nodes_inorder(new_root)]
            except RecursionError:
                seq = None
                problems.append("tree became cyclic")
            if seq is not None and seq != snap["seq"]:
                problems.append("in-order sequence of nodes changed")
            problems.extend(S.audit(new_root, expr=False))
            p, g = snap["parent"], snap["grand"]
            if self.parent is not g:
                problems.append("rotated node's parent is not the old grandparent")
            opp = self.right if snap["side"] == "L" else self.left
            if opp is not p:
                problems.append("old parent is not the rotated node's child on the opposite side")
            if p.parent is not self:
                problems.append("old parent's parent pointer does not name the rotated node")
            if g is not None:
                gp = g.left if snap["gside"] == "L" else g.right
                if gp is not self:
                    problems.append("grandparent does not point at the rotated node")
            else:
                if new_root is not self:
                    problems.append("rotated node did not become the root")
        if problems:
            rec.violation(prop, "rotate", "rotate breaks the in-order sequence or the link structure",
                          {"shape": snap["shape"], "node_path": snap["path"], "problems": problems[:6],
                           "summary": f"shape {snap['shape']} rotate node at {snap['path'] or 'root'}: {problems[0]}"})

    contracts.attach_hierarchy(BinaryTreeNode, "rotate", pre=pre, post=post)
