"""M-eval -- monitor on MathExpression.evaluate (outermost call only) against the exact
rational evaluator."""
import math
from fractions import Fraction

from .. import contracts, core
from ..oracles import exact as X
from ..oracles import shadow as S

_DEPTH = [0]
NAN_TRANSPARENT = ("Add", "Subtract", "Multiply", "Divide", "Negate")



def _r(x):
    """repr that survives integers beyond the interpreter's int->str digit limit (which is left at
    its default on purpose: it is part of the environment the code under test runs in)"""
    try:
        return repr(x)
    except ValueError:
        try:
            return f"<{type(x).__name__} of about {abs(x).bit_length()} bits>"
        except Exception:
            return f"<{type(x).__name__}>"

def attach_evaluate(prop="C05"):
    from mathy_core import expressions as E

    def around(orig, self, *args, **kwargs):
        # (the call goes on in the form it was made: evaluate(), evaluate(ctx), evaluate(context=ctx))
        context = args[0] if args else kwargs.get("context")
        if _DEPTH[0]:
            return orig(self, *args, **kwargs)
        _DEPTH[0] += 1
        res = exc = None
        try:
            try:
                sh = S.shadow(self)
            except RecursionError:
                sh = None
            # what the caller passed, as it was when the call began (dict(...) copies the items of a
            # Counter / defaultdict without triggering __missing__): the call is decided against
            # this, whatever the callee does to the object
            at_entry = context
            try:
                if isinstance(context, dict):
                    at_entry = dict(context)
            except Exception:
                pass
            try:
                res = orig(self, *args, **kwargs)
            except BaseException as e:
                exc = e
        finally:
            _DEPTH[0] -= 1
        if sh is not None:
            try:
                decide(prop, self, sh, at_entry, res, exc, type(context).__name__ + (":" + getattr(getattr(context, "default_factory", None), "__name__", "") if hasattr(context, "default_factory") else ""))
            except RecursionError:
                core.REC.skip("eval: tree too deep for the oracle")
        if exc is not None:
            raise exc
        return res

    # every class of the expression hierarchy that defines evaluate itself (an override added further
    # down the hierarchy must not slip past the monitor); nesting is tracked by the shared _DEPTH
    seen, stack = set(), [E.MathExpression]
    while stack:
        cls = stack.pop()
        if cls in seen:
            continue
        seen.add(cls)
        stack.extend(cls.__subclasses__())
        if "evaluate" in cls.__dict__ and not getattr(cls.__dict__["evaluate"], "__vmon_original__", None):
            contracts.attach(cls, "evaluate", around=around)


def _num_class(v):
    try:
        import numpy as np

        if isinstance(v, np.integer):
            return "np-int"
        if isinstance(v, np.floating):
            return "np-float"
    except Exception:
        pass
    if isinstance(v, bool):
        return "bool"
    if isinstance(v, int):
        return "int"
    if isinstance(v, float):
        return "float"
    return type(v).__name__


def _exact(v):
    try:
        import numpy as np

        if isinstance(v, np.generic):
            v = v.item()
    except Exception:
        pass
    if isinstance(v, bool):
        return Fraction(int(v))
    if isinstance(v, int):
        return Fraction(v)
    if isinstance(v, float):
        if math.isnan(v) or math.isinf(v):
            return None
        return Fraction(v)
    return None


def _float_exact(s, sigma):
    """every intermediate value of the subtree is a binary fraction that fits a double (numerator
    of at most 53 bits, power-of-two denominator), so that IEEE arithmetic computes exactly what
    the rational oracle computes: only then is "the divisor is zero" a fact about the
    implementation's own floating-point evaluation and not just about the mathematics
    (1 + (11 / y - 3x) * y is 0 at some points, but not after 11 / y has been rounded)"""
    if s is None:
        return True
    try:
        v = X.ev(s, sigma)
    except X.Undef:
        return False
    if v.approx or getattr(v, "ill", False):
        return False
    f = v.v
    d = f.denominator
    if d & (d - 1) or abs(f.numerator).bit_length() > 53 or d.bit_length() > 900:
        return False
    if s[0] == "Power":
        try:
            b, e = X.ev(s[2], sigma), X.ev(s[3], sigma)
        except X.Undef:
            return False
        zero_base = b.v == 0 and e.v > 0                      # 0^p is exactly 0 for every positive p
        int_power = e.v.denominator == 1                     # the result itself was checked above to be a binary fraction that fits
        if not (zero_base or int_power):
            return False
    return _float_exact(s[2], sigma) and _float_exact(s[3], sigma)


SIGMA = [{}]


def _negative_base_inexact_exponent(s, sigma):
    """some power has a negative base and an exponent that floating point does not compute exactly
    (b * 7 / b, q^2 * x^-2): mathematically an integer, in the execution 7.000000000000001, and a
    negative number to a non-integer power is nan -- rounding decides, not the property"""
    if s is None or s[0] in ("Constant", "Variable"):
        return False
    if s[0] == "Power" and s[2] is not None and s[3] is not None:
        try:
            b = X.ev(s[2], sigma)
            if b.v < 0 and not _float_exact(s[3], sigma):
                return True
        except X.Undef:
            pass
    return _negative_base_inexact_exponent(s[2], sigma) or _negative_base_inexact_exponent(s[3], sigma)


def _first_div0_transparent(sh, sigma):
    """True iff evaluating hits a division by zero and every node above the first such
    division is NaN-transparent (+ - * / negate), and everything else is defined."""
    def rec(s):
        # returns ('val', Val) | ('nan',) | ('undef',)
        k = s[0]
        if k in ("Constant", "Variable"):
            try:
                return ("val", X.ev(s, sigma))
            except X.Undef:
                return ("undef",)
        kids = [c for c in (s[2], s[3]) if c is not None]
        rs = [rec(c) for c in kids]
        if any(r[0] == "undef" for r in rs):
            return ("undef",)
        if any(r[0] == "nan" for r in rs):
            return ("nan",) if k in NAN_TRANSPARENT else ("undef",)
        if k == "Divide" and rs[1][1].v == 0:
            if not _float_exact(s[3], sigma):
                return ("undef",)   # zero only mathematically: rounding decides what the code sees
            return ("nan",)
        try:
            return ("val", X.ev(s, sigma))
        except X.Undef:
            return ("undef",)

    try:
        return rec(sh)[0] == "nan"
    except Exception:
        return False


def _huge_values_reach_the_root(sh, sigma):
    """every sub-expression that contains a value beyond ~1e300 is itself beyond ~1e300: the magnitude is
    carried all the way up.  Otherwise (a huge value cancelled by subtraction, divided by, raised to 0, fed
    to sgn) IEEE arithmetic may legitimately arrive at any finite number via rounding, inf or nan."""
    big = Fraction(10) ** 300
    tiny = Fraction(1, 10 ** 290)

    def walk(s):
        # -> (subtree contains a huge value, closure holds)
        if s is None:
            return False, True
        if s[0] in ("Constant", "Variable"):
            try:
                v = abs(X.ev(s, sigma).v)
                return v > big, not (0 < v < tiny)      # (a value in the underflow region may legitimately become 0 anywhere)
            except Exception:
                return False, False
        hl, okl = walk(s[2])
        hr, okr = walk(s[3])
        if not (okl and okr):
            return True, False
        try:
            mv = abs(X.ev(s, sigma).v)
            mine = mv > big
        except Exception:
            return True, False
        if 0 < mv < tiny:
            return True, False
        if (hl or hr) and not mine:
            return True, False
        return mine or hl or hr, True

    try:
        return walk(sh)[1]
    except RecursionError:
        return False


def decide(prop, node, sh, context, res, exc, ctx_type=None):
    rec = core.REC
    problems = S.audit(node, expr=True) if node.parent is None else S.audit(S.build(sh), expr=True)
    if problems:
        rec.skip("eval: malformed tree (outside the property)")
        return
    kinds = S.kinds(sh)
    names = S.variables(sh)
    ctx = context or {}
    w = {"tree": S.to_json(sh), "text": S.text_of(node), "context": {k: _r(v) for k, v in ctx.items()} if isinstance(ctx, dict) else _r(ctx)}
    if ctx_type and ctx_type != "dict":
        w["context_type"] = ctx_type

    def bad(key, what, got):
        w2 = dict(w)
        w2["got"] = got
        w2["summary"] = f"evaluate('{w['text']}', {w['context']}) {got}"
        rec.violation(prop, key, what, w2)

    rec.ev()
    # ---- missing variable
    missing = [x for x in names if not isinstance(ctx, dict) or ctx.get(x, None) is None]
    if missing:
        rec.arm("eval:missing-variable")
        if isinstance(exc, OverflowError):
            # evaluation is eager: a float overflow elsewhere in the tree was hit before the unbound
            # variable; nothing was defaulted, and IEEE overflow is outside the workload
            rec.skip("eval: overflow before the unbound variable was reached")
            return
        if not isinstance(exc, ValueError):
            bad("eval/missing-variable", "a variable without a value is not reported as ValueError",
                f"{'returned ' + _r(res) if exc is None else 'raised ' + type(exc).__name__} with {missing} unbound")
        else:
            rec.nontrivial(("eval-missing", sh, tuple(sorted(missing))))
        return
    sigma = {}
    classes = set()
    for x in names:
        v = _exact(ctx[x])
        if v is None:
            rec.skip("eval: non-finite or non-numeric context value")
            return
        sigma[x] = v
        classes.add(_num_class(ctx[x]))
    SIGMA[0] = sigma
    if S.has_nonfinite(sh):
        rec.skip("eval: non-finite constant")
        return
    for tag, _ in S.constants(sh):
        classes.add("np-int" if "int" in tag and tag.startswith("nu") else "np-float" if tag.startswith("nu") else "int" if tag.endswith(":int") else "float")
    int_only = classes <= {"int", "bool"} and not ({"Divide"} & kinds) and not _negative_exponent(sh, sigma)
    if not int_only and X.magnitude_bits(sh, sigma, limit=498) is None:
        # IEEE overflow territory: an OverflowError, an infinity or a NaN are all left alone here.  What
        # is never acceptable is a FINITE number that has nothing to do with the value (a huge quotient
        # silently answered with 0.0): decided when the exact value is affordable and beyond 1e200
        if exc is None and sh[0] != "Equal" and isinstance(res, (int, float)) and not isinstance(res, bool) and res == res and abs(res) != float("inf"):
            try:
                want = X.ev(sh, sigma) if X.magnitude_bits(sh, sigma, limit=20000) is not None else None
            except X.Undef:
                want = None
            if want is not None and not want.approx and not want.ill and abs(want.v) > Fraction(10) ** 200 and _huge_values_reach_the_root(sh, sigma):
                rec.arm("eval:overflow-region:finite-answer-checked")
                off = abs(Fraction(res) - want.v)
                if off > abs(want.v) / 2 and off > want.s / 10 ** 9:
                    bad("eval/float/wrong-value", "floating-point evaluation is off by more than rounding",
                        f"returned the finite number {_r(res)[:40]} for an expression whose exact value is about 10^{len(str(abs(want.v.numerator) // want.v.denominator)) - 1} (beyond the floats: an error, inf or nan would be understandable)")
                return
        rec.skip("eval: float regime with intermediate magnitudes that may exceed 1e150 (IEEE overflow is outside the workload)")
        return
    # ---- equations
    if sh[0] == "Equal":
        # decided only when clearly true (sides exactly equal as rationals) or clearly
        # false (sides further apart than 1e-6*scale); chains a = b = c likewise
        t = X.holds(sh, sigma, tolerant=False)
        if t is None and sh[2][0] != "Equal" and sh[3][0] != "Equal":
            # one side is a division by zero (NaN by the property's own clause), the other a number
            # or NaN as well: NaN equals nothing, the sides differ, the equation raises
            nan_sides = [_first_div0_transparent(sh[i], sigma) for i in (2, 3)]
            defined = []
            for i in (2, 3):
                try:
                    X.ev(sh[i], sigma)
                    defined.append(True)
                except X.Undef:
                    defined.append(False)
            if any(nan_sides) and all(n or d for n, d in zip(nan_sides, defined)):
                rec.arm("eval:equation:nan-side")
                if not isinstance(exc, ValueError):
                    bad("eval/equation-false-no-error", "an equation whose sides differ did not raise",
                        (f"returned {_r(res)}" if exc is None else f"raised {type(exc).__name__}") + " although one side is a division by zero (NaN)")
                else:
                    rec.nontrivial(("eval-eq-nan", sh, tuple(sorted(sigma.items()))))
                return
        if t is None:
            rec.skip("eval: equation undefined or too close to call")
            return
        try:
            approx = X.ev(sh[2], sigma).approx or X.ev(sh[3], sigma).approx if sh[2][0] != "Equal" and sh[3][0] != "Equal" else False
        except X.Undef:
            approx = True
        if t and (approx or not int_only):
            # in floating point the two sides of a mathematically true equation may round
            # differently; the common value is decided in the integer regime only
            rec.skip("eval: true equation outside the integer regime (sides may round differently)")
            return
        if not t and X.holds(sh, sigma, tolerant=True) is not False:
            rec.skip("eval: equation sides differ by less than 1e-6*scale")
            return
        rec.arm("eval:equation:" + ("true" if t else "false"))
        if t:
            if exc is not None:
                bad("eval/equation-true-raises", "an equation whose sides agree did not evaluate to the common value", f"raised {type(exc).__name__}: {str(exc)[:80]}")
                return
            try:
                want = X.ev(sh[2], sigma)
            except X.Undef:
                return
            _compare(rec, bad, sh, res, want, int_only, "equation")
        else:
            if not isinstance(exc, ValueError):
                bad("eval/equation-false-no-error", "an equation whose sides differ did not raise", f"returned {_r(res)}" if exc is None else f"raised {type(exc).__name__}")
            else:
                rec.nontrivial(("eval-eq-false", sh, tuple(sorted(sigma.items()))))
        return
    # ---- ordinary expressions
    try:
        want = X.ev(sh, sigma)
    except X.Undef as u:
        if u.reason == "division by zero" or _first_div0_transparent(sh, sigma):
            if _first_div0_transparent(sh, sigma):
                rec.arm("eval:division-by-zero")
                isnan = exc is None and isinstance(res, float) and math.isnan(res) or (exc is None and _isnan(res))
                if not isnan:
                    bad("eval/division-by-zero", "division by zero does not yield NaN", f"returned {_r(res)}" if exc is None else f"raised {type(exc).__name__}: {str(exc)[:60]}")
                else:
                    rec.nontrivial(("eval-div0", sh, tuple(sorted(sigma.items()))))
                return
        rec.skip("eval: outside the oracle's exact domain (" + u.reason.split(":")[0][:40] + ")")
        return
    if exc is not None:
        if int_only and isinstance(exc, (OverflowError, ValueError, TypeError, ArithmeticError)):
            bad(f"eval/raises/{type(exc).__name__}", "evaluation of a defined integer expression raised", f"raised {type(exc).__name__}: {str(exc)[:80]}")
        elif isinstance(exc, (OverflowError,)) and abs(want.v) > 1e150:
            rec.skip("eval: float overflow region")
        else:
            bad(f"eval/raises/{type(exc).__name__}", "evaluation of a defined expression raised", f"raised {type(exc).__name__}: {str(exc)[:80]}")
        return
    _compare(rec, bad, sh, res, want, int_only, "expression")


def _negative_exponent(sh, sigma):
    """some power in the tree has an exponent that is not a non-negative integer"""
    if sh is None:
        return False
    if sh[0] == "Power" and sh[3] is not None:
        try:
            e = X.ev(sh[3], sigma)
            if e.approx or e.v.denominator != 1 or e.v < 0:
                return True
        except X.Undef:
            return True
    return _negative_exponent(sh[2], sigma) or _negative_exponent(sh[3], sigma)


def _isnan(x):
    try:
        return x != x
    except Exception:
        return False


def _compare(rec, bad, sh, res, want, int_only, what):
    kinds = S.kinds(sh)
    ops = len([k for k in kinds if k not in ("Constant", "Variable")])
    if want.approx:
        wv = float(want.v)
    else:
        wv = want.v
    rv = _exact(res)
    regime = "int" if int_only else "float"
    rec.arm(f"eval:{regime}:{what}")
    for k in kinds:
        rec.arm(f"evalop:{regime}:{k}")
    if want.ill and not int_only:
        # a divisor / power base / sgn argument that is tiny relative to its own scale: the
        # floating-point result (even 0 -> nan) legitimately differs from the exact one
        rec.skip("eval: ill-conditioned sample")
        return
    if rv is None:
        if _isnan(res) and not int_only and _negative_base_inexact_exponent(sh, SIGMA[0]):
            rec.skip("eval: negative base with an exponent that is an integer only mathematically")
            return
        if _isnan(res) or (isinstance(res, float) and math.isinf(res)):
            if not want.approx and abs(want.v) > Fraction(10) ** 150:
                rec.skip("eval: float overflow region")
                return
            bad(f"eval/{regime}/non-finite", "evaluation returned a non-finite number for a defined expression", f"returned {_r(res)}, exact value {_r(wv)[:60]}")
        else:
            bad(f"eval/{regime}/type", "evaluation did not return a number", f"returned {_r(res)}")
        return
    if int_only:
        # exact integers of any magnitude; a numpy integer is accepted only if numerically equal
        if want.approx:
            rec.skip("eval: approximate oracle value in integer regime")
            return
        if rv != want.v:
            bad("eval/int/wrong-value", "integer arithmetic did not return the exact result", f"returned {_r(res)} ({type(res).__name__}), exact value {_r(want.v)[:80]}")
            return
        rec.arm("eval:int:resulttype:" + _num_class(res))
    else:
        if want.ill:
            rec.skip("eval: ill-conditioned sample")
            return
        sc = float(want.s) if not isinstance(want.s, float) else want.s
        d = abs(float(rv) - float(wv)) if abs(wv) < 1e300 else None
        if d is None:
            rec.skip("eval: float overflow region")
            return
        tol = 1e-12 * sc + 1e-300
        if want.approx:
            tol = 1e-9 * sc + 1e-300
        if d > tol:
            bad("eval/float/wrong-value", "floating-point evaluation is off by more than rounding", f"returned {_r(res)}, exact value {float(wv)!r} (scale {sc:.3g})")
            return
    if ops >= 1:
        rec.nontrivial(("eval", sh, what, regime))
