"""M-tok / M-parse -- monitors on Tokenizer.tokenize and ExpressionParser.parse/tokenize,
plus the logical step budget (sys.monitoring LINE events inside parser.py/tokenizer.py)."""
import sys
import types

from .. import contracts, core
from ..oracles import exact as X
from ..oracles import refgrammar as G
from ..oracles import shadow as S


# ------------------------------------------------------------------ step budget

class BudgetExceeded(BaseException):
    """raised into the monitored call when it executed more lines than its budget"""


class StepBudget:
    """Counts LINE events of the code objects of the given modules while armed."""

    TOOL = 3

    def __init__(self, modules):
        self.count = 0
        self.limit = None
        self.armed = False
        self.high_water = 0
        self.ok = hasattr(sys, "monitoring")
        if not self.ok:
            return
        mon = sys.monitoring
        try:
            mon.use_tool_id(self.TOOL, "vmon-step-budget")
        except ValueError:
            pass
        mon.register_callback(self.TOOL, mon.events.LINE, self._line)
        for m in modules:
            for code in self._codes(m):
                mon.set_local_events(self.TOOL, code, mon.events.LINE)

    def _codes(self, module):
        seen = set()
        out = []

        def add(code):
            if id(code) in seen:
                return
            seen.add(id(code))
            out.append(code)
            for c in code.co_consts:
                if isinstance(c, types.CodeType):
                    add(c)

        for v in vars(module).values():
            if isinstance(v, types.FunctionType) and v.__module__ == module.__name__:
                add(v.__code__)
            elif isinstance(v, type) and v.__module__ == module.__name__:
                for w in vars(v).values():
                    f = getattr(w, "__vmon_original__", w)
                    f = getattr(f, "__func__", f)
                    if isinstance(f, types.FunctionType):
                        add(f.__code__)
                    elif isinstance(f, property) and f.fget is not None:
                        add(f.fget.__code__)
        return out

    def _line(self, code, line):
        if not self.armed:
            return
        self.count += 1
        if self.count > self.limit:
            self.armed = False
            raise BudgetExceeded(f"{self.count} lines executed, budget {self.limit}")

    def start(self, limit):
        self.count = 0
        self.limit = limit
        self.armed = True

    def stop(self):
        self.armed = False
        if self.count > self.high_water:
            self.high_water = self.count
        return self.count


_BUDGET = None


def budget():
    global _BUDGET
    if _BUDGET is None:
        import mathy_core.parser as P
        import mathy_core.tokenizer as T

        _BUDGET = StepBudget([P, T])
    return _BUDGET


def step_limit(text):
    return 2000 * (len(text) + 10)


# ------------------------------------------------------------------ tokenizer

def _tt():
    from mathy_core.tokenizer import TOKEN_TYPES as TT

    return {
        TT.Constant: "C", TT.Variable: "V", TT.Plus: "+", TT.Minus: "-", TT.Multiply: "*", TT.Divide: "/",
        TT.Exponent: "^", TT.Factorial: "!", TT.OpenParen: "(", TT.CloseParen: ")", TT.Function: "F", TT.Equal: "=",
        TT.Pad: "P", TT.EOF: "EOF", TT.Invalid: "INVALID",
    }


def tok_tuples(tokens):
    m = _tt()
    return [(m.get(getattr(t, "type", None), f"?{getattr(t, 'type', None)}"), getattr(t, "value", None)) for t in tokens]


def char_class(c):
    if c.isascii():
        if c.isdigit():
            return "digit"
        if c == ".":
            return "dot"
        if c.isalpha():
            return "alpha"
        if c in " \t\r\n":
            return "ws"
        if c in "+-*/^!=()[]":
            return "op" + c
        return "other-ascii"
    if c == "–":
        return "endash"
    return "non-ascii"


def check_tokens(prop, text, keep_padding, res, exc, over_budget=False, funcs=None):
    """Decide one tokenize() call (C11)."""
    rec = core.REC
    rec.ev()
    mode = "pad" if keep_padding else "nopad"
    w = {"text": text, "padding": keep_padding}

    def bad(key, what, got):
        w2 = dict(w)
        w2["got"] = got
        w2["summary"] = f"tokenize({text!r}, padding={'kept' if keep_padding else 'dropped'}): {got}"
        rec.violation(prop, key, what, w2)

    if over_budget:
        bad("tok/step-budget", "tokenize does not terminate within its logical step budget", "budget exceeded")
        return
    try:
        ref = G.ref_tokenize(text, keep_padding, funcs)
        ref_err = None
    except G.BadChar as e:
        ref, ref_err = None, e
    if ref_err is not None:
        rec.arm(f"tok:{mode}:rejected-char")
        rec.arm("tok:badchar-class:" + char_class(ref_err.ch))
        if not isinstance(exc, ValueError):
            bad("tok/unsupported-char", "an unsupported character does not raise ValueError",
                f"{'returned' if exc is None else type(exc).__name__} for character {ref_err.ch!r} at {ref_err.pos}")
        elif len(text) >= 2:
            rec.nontrivial(("tokbad", text, keep_padding))
        return
    if exc is not None:
        bad("tok/raises", "tokenize raises on a string over the supported alphabet", f"{type(exc).__name__}: {exc}")
        return
    try:
        got = tok_tuples(res)
    except Exception as e:
        bad("tok/result-type", "tokenize did not return a list of tokens", repr(e))
        return
    rec.arm(f"tok:{mode}:ok")
    for t, _ in got:
        rec.arm("toktype:" + t)
    if len(got) >= 3:
        rec.nontrivial(("tok", text, keep_padding))
    if got != ref:
        # which sub-law fails first?
        n_eof = sum(1 for t, _ in got if t == "EOF")
        if n_eof != 1 or not got or got[-1][0] != "EOF":
            bad("tok/end-marker", "token stream does not end with exactly one end marker", f"{n_eof} end markers; last={got[-1:] }")
        elif keep_padding and "".join(str(v) for _, v in got) != G.normalise(text):
            bad("tok/lossless", "concatenated token values do not reproduce the input", "".join(str(v) for _, v in got))
        else:
            i = next((i for i, (a, b) in enumerate(zip(got, ref)) if a != b), min(len(got), len(ref)))
            bad("tok/classes", "token classes/values differ from the reference tokenizer",
                f"token {i}: {got[i:i + 3]} expected {ref[i:i + 3]}")
        return
    if keep_padding and "".join(v for _, v in got) != G.normalise(text):  # pragma: no cover (ref is lossless)
        bad("tok/lossless", "concatenated token values do not reproduce the input", "")


def attach_tokenizer(prop="C11", with_budget=True):
    from mathy_core.tokenizer import Tokenizer

    b = budget() if with_budget else None

    def around(orig, *args, **kwargs):
        self = args[0]
        buffer = args[1] if len(args) > 1 else kwargs.get("buffer")
        if not isinstance(buffer, str):
            return orig(*args, **kwargs)
        keep = not bool(self.exclude_padding)
        # the function names this instance is SUPPOSED to know: the documented one, plus whatever the
        # harness itself registered on this very instance (it records that in _vmon_funcs).  Not read
        # from self.functions: a registry shared between instances would vouch for its own leak.
        funcs = getattr(self, "_vmon_funcs", None)
        if b is not None and b.ok:
            b.start(step_limit(buffer))
        try:
            res = orig(*args, **kwargs)
        except BudgetExceeded:
            b.stop()
            check_tokens(prop, buffer, keep, None, None, over_budget=True, funcs=funcs)
            raise ValueError("vmon: step budget exceeded in tokenize")
        except BaseException as e:
            if b is not None:
                b.stop()
            check_tokens(prop, buffer, keep, None, e, funcs=funcs)
            raise
        if b is not None:
            b.stop()
        check_tokens(prop, buffer, keep, res, None, funcs=funcs)
        return res

    contracts.attach(Tokenizer, "tokenize", around=around)


# ------------------------------------------------------------------ parser

def ref_outcome(text, funcs=None):
    """('ok', ast, prods) | ('reject', reason) | ('badnumber', txt) | ('badchar', ch)"""
    try:
        ast, prods = G.ref_parse(text, funcs=funcs) if funcs else G.ref_parse(text)
        return ("ok", ast, prods)
    except G.Reject as e:
        return ("reject", str(e))
    except G.BadNumber as e:
        return ("badnumber", str(e))
    except G.BadChar as e:
        return ("badchar", e.ch)
    except RecursionError:
        return ("too-deep",)


def impl_outcome(res, exc):
    from mathy_core.parser import ParserException

    if exc is None:
        return "ok"
    if isinstance(exc, ParserException):
        return "parser-exception"
    if isinstance(exc, ValueError):
        return "value-error"
    return "internal:" + type(exc).__name__


def compare_trees(sa, sb, rng):
    """Value-level comparison of two shadows (equations side by side).
    -> (verdict, detail) with verdict in same/diff/skip"""
    if (sa[0] == "Equal") != (sb[0] == "Equal"):
        return "diff", "one is an equation and the other is not"
    if sa[0] == "Equal":
        v1, d1 = compare_trees(sa[2], sb[2], rng)
        if v1 == "diff":
            return v1, "left side: " + d1
        v2, d2 = compare_trees(sa[3], sb[3], rng)
        if v2 == "diff":
            return v2, "right side: " + d2
        return ("same" if v1 == v2 == "same" else "skip"), ""
    names = S.variables(sa) | S.variables(sb)
    sig = X.assignments(names, rng)
    r = X.compare_values(sa, sb, sig, tolerant=False)
    if r["diffs"]:
        s0, a, b = r["diffs"][0]
        return "diff", f"at {X.sigma_json(s0)}: {a} vs {b}"
    if r["undef_a"] or r["undef_b"]:
        dd = X.definedness_differs(sa, sb, sig)
        if dd:
            return "diff", f"defined on one side only at {X.sigma_json(dd[0])} ({dd[1]} vs {dd[2]})"
    if r["common"] >= (3 if names else 1):
        return "same", ""
    return "skip", f"only {r['common']} comparable points"


_STATE = {"in_parse": False}


def attach_parser(prop, checks, with_budget=True):
    """checks: subset of {'grammar', 'closure', 'history'}"""
    from mathy_core.parser import ExpressionParser

    b = budget() if with_budget else None
    state = _STATE

    def around(orig, *args, **kwargs):
        # (the call is passed on in exactly the form it was made: positional or by keyword)
        self = args[0]
        input_text = args[1] if len(args) > 1 else kwargs.get("input_text")
        if not isinstance(input_text, str):
            return orig(*args, **kwargs)
        rec = core.REC
        hist = getattr(self, "_vmon_history", None)
        if b is not None and b.ok:
            b.start(step_limit(input_text))
        res = exc = None
        over = False
        state["in_parse"] = True
        try:
            res = orig(*args, **kwargs)
        except BudgetExceeded:
            over = True
        except BaseException as e:
            exc = e
        finally:
            state["in_parse"] = False
        steps = b.stop() if b is not None else 0
        try:
            decide(prop, getattr(self, "_vmon_checks", checks), self, input_text, res, exc, over, hist, steps)
        finally:
            if hist is not None:
                hist.append(("parse", input_text, impl_outcome(res, exc)))
        if over:
            raise ValueError("vmon: step budget exceeded in parse")
        if exc is not None:
            raise exc
        return res

    contracts.attach(ExpressionParser, "parse", around=around)


def decide(prop, checks, parser, text, res, exc, over, hist, steps):
    rec = core.REC
    rec.ev()
    out = impl_outcome(res, exc)
    w = {"text": text, "impl": out if exc is None else f"{out}: {type(exc).__name__}: {str(exc)[:120]}"}
    if hist is not None:
        w["history"] = list(hist)[-3000:]
    if hasattr(parser, "_vmon_checks"):
        w["two_parsers"] = True   # observed in the two-parsers-alive phase (replayed by re-running that phase)

    def bad(key, what, got):
        w2 = dict(w)
        w2["got"] = got
        w2["summary"] = f"parse({text!r}): {got}"
        rec.violation(prop, key, what, w2)

    # ---------------- C10: closure, totality, well-formedness
    if "closure" in checks:
        rec.arm("parse:outcome:" + (out if not out.startswith("internal") else "internal"))
        if exc is not None:
            rec.arm("parse:exc:" + type(exc).__name__)
        if over:
            bad("parse/step-budget", "parse does not terminate within its logical step budget", f"more than {step_limit(text)} lines")
        elif out.startswith("internal"):
            bad("parse/internal-error:" + type(exc).__name__, "an internal error escapes parse()", f"{type(exc).__name__}: {exc}")
        elif out == "ok":
            try:
                problems = S.audit(res, expr=True)
            except RecursionError:
                problems = ["tree is cyclic"] if _cyclic(res) else []   # merely too deep for the monitor: not a finding
            if any(str(q).startswith("depth >") for q in problems):
                # the audit's own depth guard: a very long sum is a very deep (left-leaning) tree, not a malformed one
                problems = ["tree is cyclic"] if _cyclic(res) else [q for q in problems if not str(q).startswith("depth >")]
            if not _is_expr(res):
                problems.insert(0, f"returned {type(res).__name__}, not an expression")
            if problems:
                bad("parse/malformed-tree", "parse returned a tree that is not well formed", "; ".join(problems[:4]))
        rec.notes["budget_high_water"] = max(rec.notes.get("budget_high_water", 0), steps)
    # ---------------- C03: grammar
    if "grammar" in checks and not over:
        ref = ref_outcome(text, getattr(getattr(parser, "tokenizer", None), "_vmon_funcs", None))
        if ref[0] == "too-deep":
            rec.skip("reference parser recursion limit")
        elif ref[0] == "ok":
            rec.arm("grammar:ref-accepts")
            for p in ref[2]:
                rec.arm("prod:" + p)
            if out == "value-error" and G.over_int_limit(text):
                # a well-formed literal longer than the interpreter's own int(str) limit: refusing it with
                # ValueError and reading it exactly are both accepted (a wrong value is not: see operands)
                rec.arm("grammar:int-limit-refused")
            elif out != "ok":
                rec.arm("grammar:impl-rejects-derivable")
                bad("grammar/rejects-derivable", "a string the documented grammar derives is rejected", w["impl"])
            else:
                _grammar_values(prop, rec, text, res, ref[1], bad)
        else:
            rec.arm("grammar:ref-rejects:" + ref[0])
            if out == "ok":
                bad("grammar/accepts-underivable", "a string the documented grammar does not derive is accepted",
                    f"reference: {ref[0]} {ref[1]}; implementation returned {S.text_of(res)!r}")
            elif len(text) >= 2:
                rec.nontrivial(("grammar-reject", text))
    # ---------------- C10/C12: history independence (compare with a fresh parser)
    if "history" in checks and not over and hist is not None and len(hist) > 0:
        _history(prop, rec, parser, text, res, exc, out, hist, bad)


def _cyclic(root):
    seen, stack = set(), [root]
    while stack:
        x = stack.pop()
        if x is None:
            continue
        if id(x) in seen:
            return True
        seen.add(id(x))
        stack.append(getattr(x, "left", None))
        stack.append(getattr(x, "right", None))
    return False


def _is_expr(x):
    from mathy_core.expressions import MathExpression

    return isinstance(x, MathExpression)


def _grammar_values(prop, rec, text, res, ast, bad):
    try:
        sh = S.shadow(res)
    except RecursionError:
        # too deep for the monitor's own recursion, or cyclic?  an iterative walk with a seen-set decides
        seen, stack, cyclic = set(), [res], False
        while stack and not cyclic:
            x = stack.pop()
            if x is None:
                continue
            if id(x) in seen:
                cyclic = True
                break
            seen.add(id(x))
            stack.append(getattr(x, "left", None))
            stack.append(getattr(x, "right", None))
        if cyclic:
            bad("grammar/malformed", "parse returned a cyclic tree", "")
        else:
            rec.skip("grammar: tree too deep for the monitor's structural comparison")
            rec.arm("grammar:too-deep-to-compare")
        return
    if S.audit(res, expr=True):
        rec.arm("grammar:tree-malformed-but-compared")
    nops = S.size(sh) - len(G.leaves(sh))
    if G.strip_tags(sh) == G.strip_tags(ast):
        rec.arm("grammar:same-tree")
    else:
        rec.arm("grammar:different-tree")
    # operand leaves
    la, lb = G.leaves(sh), G.leaves(ast)
    if la != lb:
        key = "grammar/operands"
        dup = _classify_switches(text, sh)
        if dup:
            key += ":" + dup
        bad(key, "the parsed tree does not have exactly the operands that were written", f"leaves {la} expected {lb}")
        return
    # literal types
    ca = sorted((p[0], G.safe_str(p[1])) for p in S.constants(sh))
    cb = sorted((p[0], G.safe_str(p[1])) for p in S.constants(ast))
    if ca != cb:
        bad("grammar/literal-type", "a literal is not coerced to int/float as documented", f"{ca} expected {cb}")
        return
    rng = core.h64(text)
    import random

    verdict, detail = compare_trees(sh, ast, random.Random(rng))
    if verdict == "diff":
        key = "grammar/value"
        sw = _classify_switches(text, sh)
        if sw:
            key += ":" + sw
        bad(key, "the parsed tree does not have the value the documented grammar prescribes",
            f"{detail}; tree printed as {S.text_of(res)!r}")
    elif verdict == "same":
        rec.arm("grammar:value-agree")
        if nops >= 2:
            rec.nontrivial(("grammar", text))
    else:
        rec.skip("grammar: " + detail.split(":")[0])
        if nops >= 2 and G.strip_tags(sh) == G.strip_tags(ast):
            rec.nontrivial(("grammar", text))


def _classify_switches(text, sh):
    """Which deviation switches of the reference reproduce the implementation's tree."""
    for name, kw in (("right_assoc_muldiv", {"right_assoc_muldiv": True}), ("dup_last_factor", {"dup_last_factor": True}),
                     ("right_assoc_muldiv+dup_last_factor", {"right_assoc_muldiv": True, "dup_last_factor": True})):
        try:
            ast, _ = G.ref_parse(text, **kw)
        except Exception:
            continue
        if G.strip_tags(ast) == G.strip_tags(sh):
            return name
    return ""


def _history(prop, rec, parser, text, res, exc, out, hist, bad):
    from mathy_core.parser import ExpressionParser

    rec.arm("history:compared")
    if any(h[1] == text for h in hist):
        rec.arm("history:repeat-query")
    if any(h[2] != "ok" for h in hist if h[0] == "parse"):
        rec.arm("history:after-failure")
    fresh_res = fresh_exc = None
    try:
        fresh_res = ExpressionParser().parse(text)
    except BaseException as e:
        fresh_exc = e
    fout = impl_outcome(fresh_res, fresh_exc)
    if out != fout or (exc is not None and type(exc) is not type(fresh_exc)):
        bad("history/outcome", "a used parser answers differently from a fresh parser",
            f"used: {out} {type(exc).__name__ if exc else ''}; fresh: {fout} {type(fresh_exc).__name__ if fresh_exc else ''}")
        return
    if out == "ok":
        try:
            a, bsh = S.shadow(res), S.shadow(fresh_res)
        except RecursionError:
            return
        if a != bsh:
            bad("history/tree", "a used parser returns a structurally different tree than a fresh parser",
                f"used {S.text_of(res)!r} fresh {S.text_of(fresh_res)!r}")
            return
    rec.nontrivial(("hist", tuple(hist[-6:]), text))


def attach_parser_tokenize(prop="C12"):
    """ExpressionParser.tokenize: same tokens as a fresh parser; lists are independent."""
    from mathy_core.parser import ExpressionParser

    def post(snap, a, k, res, exc):
        self, text = a[0], (a[1] if len(a) > 1 else k.get("input_text"))
        hist = getattr(self, "_vmon_history", None)
        if hist is None or not isinstance(text, str) or _STATE["in_parse"]:
            return
        rec = core.REC
        rec.ev()
        rec.arm("history:tokenize-compared")
        fresh = fexc = None
        try:
            fresh = ExpressionParser().tokenize(text)
        except BaseException as e:
            fexc = e
        w = {"text": text, "history": list(hist)[-3000:]}
        if (exc is None) != (fexc is None) or (exc is not None and type(exc) is not type(fexc)):
            w["summary"] = f"tokenize({text!r}) used: {type(exc).__name__ if exc else 'ok'} fresh: {type(fexc).__name__ if fexc else 'ok'}"
            rec.violation(prop, "history/tokenize-outcome", "a used parser tokenizes differently from a fresh parser", w)
        elif exc is None:
            if tok_tuples(res) != tok_tuples(fresh):
                w["summary"] = f"tokenize({text!r}) used: {tok_tuples(res)[:8]} fresh: {tok_tuples(fresh)[:8]}"
                rec.violation(prop, "history/tokens", "a used parser returns different tokens than a fresh parser", w)
            else:
                cache = getattr(self, "_tokens_cache", {})
                if isinstance(cache, dict) and cache.get(text) is res:
                    w["summary"] = f"tokenize({text!r}) handed out the cached list object itself"
                    rec.violation(prop, "history/shared-list", "a token list handed out is not an independent copy", w)
                if any(h[1] == text for h in hist):
                    rec.arm("history:repeat-query")
                rec.nontrivial(("histtok", tuple(hist[-6:]), text))
        hist.append(("tokenize", text, "ok" if exc is None else type(exc).__name__))

    contracts.attach(ExpressionParser, "tokenize", post=post)
