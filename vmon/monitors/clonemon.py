"""M-clone -- monitors on clone() and clone_from_root()."""
from .. import contracts, core
from ..oracles import shadow as S

_DEPTH = [0]


def _ids(n, out=None):
    if out is None:
        out = []
    if n is None:
        return out
    out.append(getattr(n, "id", None))
    _ids(n.left, out)
    _ids(n.right, out)
    return out


def check_copy(prop, rec, orig, copy, what, witness):
    """`copy` must be an identical, object-disjoint copy of the subtree `orig`."""
    so, sc = S.shadow(orig), S.shadow(copy)
    w = dict(witness)
    w["tree"] = S.to_json(so)
    w["ids_preorder"] = _ids(orig)

    def bad(key, msg):
        w2 = dict(w)
        w2["summary"] = f"{what} of '{S.text_of(S.build(so))}': {msg}"
        rec.violation(prop, key, msg, w2)
        return False

    if so != sc:
        # which aspect differs?
        if S.vshadow(orig) != S.vshadow(copy):
            return bad(f"{what}/structure", "the copy differs in shape, node kinds, constants or variable names")
        flags_o = [x for x in _flags(so)]
        flags_c = [x for x in _flags(sc)]
        if flags_o != flags_c:
            return bad(f"{what}/operand-side", "a one-operand node lost the side its operand is on")
        return bad(f"{what}/payload-type", "the copy differs in constant types")
    if _sides(orig) != _sides(copy):
        return bad(f"{what}/operand-side", "operands are on different sides in the copy")
    if _ids(orig) != _ids(copy):
        return bad(f"{what}/ids", "node ids are not preserved")
    a = {id(n) for n in S.nodes_preorder(orig)}
    shared = [n for n in S.nodes_preorder(copy) if id(n) in a]
    if shared:
        return bad(f"{what}/shared-objects", f"the copy shares {len(shared)} node objects with the original")
    # the same through ANY attribute that holds a node (unary nodes keep their constructor operand
    # in .child, layout leaves .thread, ...): nothing reachable from the copy is part of the original
    from mathy_core.tree import BinaryTreeNode as _BTN

    for n in S.nodes_preorder(copy):
        for attr, v in list(vars(n).items()):
            if attr in ("left", "right", "parent"):
                continue
            if isinstance(v, _BTN) and id(v) in a:
                return bad(f"{what}/shared-objects", f"the copy's attribute .{attr} refers to a node object of the original")
    problems = S.audit(copy if copy.parent is None else S.root_of(copy), expr=_is_expr(copy))
    if problems:
        try:
            same_in_original = S.audit(orig if orig.parent is None else S.root_of(orig), expr=_is_expr(orig))
        except Exception:
            same_in_original = []
        if same_in_original:
            # a tree under construction (an operator still lacking an operand): the copy faithfully
            # has the same hole; soundness is demanded of copies of sound trees
            rec.arm("clone:copy-of-an-incomplete-tree")
            return True
    if problems:
        return bad(f"{what}/audit", "the copy is not structurally sound: " + problems[0])
    return True


def _is_expr(n):
    from mathy_core.expressions import MathExpression

    return isinstance(n, MathExpression) and type(n) is not MathExpression


def _flags(s, out=None):
    if out is None:
        out = []
    if s is None:
        return out
    if s[0] in S.UNARY:
        out.append(s[1])
    _flags(s[2], out)
    _flags(s[3], out)
    return out


def _sides(n):
    if n is None:
        return None
    return (n.left is not None, n.right is not None, _sides(n.left), _sides(n.right))


def attach_clone(prop="C13"):
    from mathy_core import expressions as E
    from mathy_core.tree import BinaryTreeNode

    def around(orig, self, *a, **k):
        if _DEPTH[0]:
            return orig(self, *a, **k)
        _DEPTH[0] += 1
        try:
            res = orig(self, *a, **k)
        except RecursionError:
            raise
        except Exception as e:
            # a copy was asked for and none came back
            try:
                sound = not S.audit(self if self.parent is None else S.root_of(self), expr=False)
                if sound:
                    core.REC.ev()
                    core.REC.violation(prop, f"clone/raises/{type(e).__name__}", "clone raised on a well-linked tree",
                                       {"tree": S.to_json(S.shadow(self)), "summary": f"clone() of '{S.text_of(self)}' raised {type(e).__name__}: {str(e)[:80]}"})
            except Exception:
                pass
            raise
        finally:
            _DEPTH[0] -= 1
        rec = core.REC
        rec.ev()
        rec.arm("clone:" + S.kind(self))
        try:
            ok = check_copy(prop, rec, self, res, "clone", {})
        except RecursionError:
            rec.skip("clone: tree too deep")
            return res
        if ok and res.parent is not None:
            rec.violation(prop, "clone/parent", "a clone has a parent", {"tree": S.to_json(S.shadow(self)), "summary": "clone() returned a node with a parent"})
        if ok:
            for fl in _flags(S.shadow(self)):
                rec.arm("clone:unary-operand-" + ("left" if fl else "right"))
            if S.size(S.shadow(self)) >= 2:
                rec.nontrivial(("clone", S.shadow(self)))
        return res

    # clone is overridden along the class hierarchy; one shared outermost-call counter
    seen, stack = set(), [BinaryTreeNode]
    while stack:
        cls = stack.pop()
        if cls in seen:
            continue
        seen.add(cls)
        stack.extend(cls.__subclasses__())
        if "clone" in cls.__dict__ and not getattr(cls.__dict__["clone"], "__vmon_original__", None):
            contracts.attach(cls, "clone", around=around)

    def around_cfr(orig, self, *args, **kwargs):
        node = args[0] if args else kwargs.get("node")
        if node is not None and node is not self:
            return orig(self, *args, **kwargs)
        root = S.root_of(self)
        path = S.path_from_root(self)
        _DEPTH[0] += 1  # the inner clone() calls are part of this operation
        err = None
        try:
            res = orig(self, *args, **kwargs)
        except Exception as e:
            err = e
        finally:
            _DEPTH[0] -= 1
        rec = core.REC
        rec.ev()
        rec.arm("clone_from_root")
        sh = S.shadow(root)
        w = {"node_path": "".join(path or []), "tree": S.to_json(sh), "ids_preorder": _ids(root)}
        if err is not None:
            if not S.audit(root, expr=False):
                w["summary"] = f"clone_from_root via the node at {''.join(path or []) or 'root'} of '{S.text_of(root)}' raised {type(err).__name__}: {str(err)[:80]}"
                rec.violation(prop, "clone_from_root/raises", "clone_from_root raised on a well-linked tree", w)
            raise err
        try:
            new_root = S.root_of(res)
        except Exception:
            new_root = None
        if new_root is None or not check_copy(prop, rec, root, new_root, "clone_from_root", w):
            return res
        rpath = S.path_from_root(res)
        objs = S.nodes_preorder(root)
        if len({id(n) for n in objs}) < len(objs):
            # an operand object occurs at several positions of the original (x = Variable("x");
            # Multiply(x, x)): "the position of the node" is not unique, any of them is right
            places = [i for i, n in enumerate(objs) if n is self]
            copies = S.nodes_preorder(new_root)
            if not any(i < len(copies) and copies[i] is res for i in places):
                w["summary"] = f"clone_from_root via a node of '{S.text_of(root)}' that occurs at {len(places)} positions returned a node at none of them"
                rec.violation(prop, "clone_from_root/position", "clone_from_root does not return the copy of the node it was called on", w)
            else:
                rec.arm("clone_from_root:operand-object-used-twice")
            return res
        if rpath != path or res is not S.follow(new_root, path or []):
            w["summary"] = f"clone_from_root via the node at {''.join(path or []) or 'root'} of '{S.text_of(root)}' returned the node at {''.join(rpath or ['?'])}"
            rec.violation(prop, "clone_from_root/position", "clone_from_root does not return the copy of the node it was called on", w)
            return res
        if getattr(res, "id", None) != getattr(self, "id", None) or S.shadow(res) != S.shadow(self):
            w["summary"] = f"clone_from_root via node at {''.join(path or [])} of '{S.text_of(root)}' returned a different subtree"
            rec.violation(prop, "clone_from_root/position", "clone_from_root does not return the copy of the node it was called on", w)
            return res
        rec.arm("clone_from_root:depth:" + str(min(len(path or []), 6)))
        if path:
            rec.nontrivial(("cfr", sh, tuple(path)))
        return res

    contracts.attach_hierarchy(E.MathExpression, "clone_from_root", around=around_cfr)
