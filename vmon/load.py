"""Import mathy_core from the repository's *current working tree* and fingerprint it.

Pure Python: "rebuilding" is a fresh interpreter importing the files as they are now.
Every shard process calls `load()` first; it refuses to continue if the package that
got imported is not the one under VERIF_REPO (default /repo).
"""
import hashlib
import os
import subprocess
import sys
import warnings

REPO = os.environ.get("VERIF_REPO", "/repo")
VERIF = os.path.dirname(os.path.dirname(os.path.abspath(__file__)))

_loaded = None


def load():
    global _loaded
    if _loaded is not None:
        return _loaded
    sys.dont_write_bytecode = True
    if REPO in sys.path:
        sys.path.remove(REPO)
    sys.path.insert(0, REPO)
    warnings.simplefilter("ignore")
    import numpy as np

    np.seterr(all="ignore")
    import mathy_core  # noqa

    here = os.path.realpath(os.path.dirname(mathy_core.__file__))
    want = os.path.realpath(os.path.join(REPO, "mathy_core"))
    if here != want:
        raise RuntimeError(f"mathy_core imported from {here}, expected {want}")
    _loaded = mathy_core
    return mathy_core


def fingerprint():
    """HEAD commit + sha256 over mathy_core/**/*.py and *.json of the working tree."""
    h = hashlib.sha256()
    root = os.path.join(REPO, "mathy_core")
    n = 0
    for d, dirs, files in sorted(os.walk(root)):
        dirs[:] = sorted(x for x in dirs if x != "__pycache__")
        for f in sorted(files):
            if f.endswith((".py", ".json")):
                p = os.path.join(d, f)
                h.update(os.path.relpath(p, root).encode())
                with open(p, "rb") as fh:
                    h.update(fh.read())
                n += 1
    try:
        head = subprocess.run(
            ["git", "-C", REPO, "rev-parse", "--short", "HEAD"],
            capture_output=True, text=True, timeout=20,
        ).stdout.strip()
        dirty = bool(
            subprocess.run(
                ["git", "-C", REPO, "status", "--porcelain", "--", "mathy_core"],
                capture_output=True, text=True, timeout=20,
            ).stdout.strip()
        )
    except Exception:
        head, dirty = "unknown", False
    return {"repo_head": head, "repo_dirty": dirty, "source_sha256": h.hexdigest(), "source_files": n}
