"""Recorder (what a shard observed), shard configuration, hashing helpers."""
import hashlib
import json
import sys
import os
import random
import time
from collections import Counter


def h64(obj):
    return hashlib.blake2b(repr(obj).encode("utf-8", "replace"), digest_size=8).digest()


class Cfg:
    """Configuration of one shard run."""

    def __init__(self, prop, tier, seed, shard, nshards, deadline_s):
        self.prop = prop
        self.tier = tier
        self.seed = seed
        self.shard = shard
        self.nshards = nshards
        self.t0 = time.monotonic()
        self.deadline_s = deadline_s
        self.thorough = tier == "thorough"

    def rng(self, *salt):
        """Independent deterministic stream for (seed, shard, salt)."""
        key = repr((self.seed, self.shard, salt))
        return random.Random(int.from_bytes(hashlib.blake2b(key.encode(), digest_size=8).digest(), "big"))

    def grng(self, *salt):
        """Stream that is the same in every shard (for partitioned deterministic lists)."""
        key = repr((self.seed, "global", salt))
        return random.Random(int.from_bytes(hashlib.blake2b(key.encode(), digest_size=8).digest(), "big"))

    def mine(self, i):
        """Partition deterministic case lists among shards."""
        return i % self.nshards == self.shard

    def scale(self, quick, thorough):
        return thorough if self.thorough else quick

    def out_of_time(self):
        return time.monotonic() - self.t0 > self.deadline_s

    def elapsed(self):
        return time.monotonic() - self.t0


CALLER_ENV = [None]


def caller_environment():
    """Interpreter-wide settings that belong to the CALLER of the library, changed the way an application
    legitimately changes them for its own work before it uses the library: the decimal context (4 significant
    digits, rounding down: results shown to four figures) and numpy's print
    options.  The library's behaviour must not depend on them.  One shard of every check runs like this."""
    import decimal

    ctx = decimal.getcontext()
    ctx.prec = 4
    ctx.rounding = decimal.ROUND_DOWN
    try:
        import numpy as np

        np.set_printoptions(precision=3, suppress=True, floatmode="fixed")
    except Exception:
        pass
    CALLER_ENV[0] = "decimal context prec=4 ROUND_DOWN; numpy printoptions precision=3"


class Recorder:
    MAX_SAMPLES = 24
    MAX_WITNESS_PER_KEY = 3

    def __init__(self, prop):
        self.prop = prop
        self.evaluations = 0
        self.counters = Counter()
        self.inconclusive = Counter()
        self.distinct = set()
        self.samples = []
        self._sample_seen = 0
        self.violations = {}  # key -> {"count": n, "what": str, "witnesses": [..]}
        self.other = Counter()  # violations of other properties seen by shared monitors (diagnostic)
        self.notes = {}
        self.truncated = False
        self.accept = None  # kinds of non-trivial cases that count for this property (first tuple element)
        self.alias = set()  # properties whose violations count for this check (keys get a "Cxx:" prefix)
        self._srng = random.Random(12345)

    # -- observation counting
    def ev(self, n=1):
        self.evaluations += n

    def arm(self, name, n=1):
        self.counters[name] += n

    def skip(self, reason, n=1):
        self.inconclusive[reason] += n

    def nontrivial(self, obj):
        if self.accept is not None and not (isinstance(obj, tuple) and obj and obj[0] in self.accept):
            return
        self.distinct.add(h64(obj))

    def sample(self, obj, always=False):
        self._sample_seen += 1
        if len(self.samples) < self.MAX_SAMPLES:
            self.samples.append(obj)
        elif always or self._srng.random() < self.MAX_SAMPLES / self._sample_seen:
            self.samples[self._srng.randrange(self.MAX_SAMPLES)] = obj

    # -- verdicts
    def violation(self, prop, key, what, witness):
        """A monitor decided `violated`.  Only violations of the property under check
        count; the shared monitors' other findings are kept as diagnostics."""
        if prop != self.prop:
            if prop in self.alias:
                key = f"{prop}:{key}"
            else:
                self.other[f"{prop}:{key}"] += 1
                return
        v = self.violations.setdefault(key, {"count": 0, "what": what, "witnesses": []})
        v["count"] += 1
        if len(v["witnesses"]) < self.MAX_WITNESS_PER_KEY:
            if isinstance(witness, dict) and sys.flags.optimize:
                witness = dict(witness, python_optimize=sys.flags.optimize)
                if "summary" in witness:
                    witness["summary"] += "  [observed under python -O]"
            if isinstance(witness, dict) and CALLER_ENV[0]:
                witness = dict(witness, caller_environment=CALLER_ENV[0])
                if "summary" in witness:
                    witness["summary"] += f"  [observed with the caller's own settings in force: {CALLER_ENV[0]}]"
            v["witnesses"].append(witness)

    def dump(self, path, cfg):
        tmp = path + ".tmp"
        with open(tmp, "w") as f:
            json.dump(
                {
                    "prop": self.prop,
                    "shard": cfg.shard,
                    "evaluations": self.evaluations,
                    "counters": dict(self.counters),
                    "inconclusive": dict(self.inconclusive),
                    "samples": self.samples,
                    "violations": self.violations,
                    "other": dict(self.other),
                    "notes": self.notes,
                    "truncated": self.truncated,
                    "wall_s": cfg.elapsed(),
                },
                f,
                default=str,
            )
        with open(path + ".distinct", "wb") as f:
            f.write(b"".join(sorted(self.distinct)))
        os.replace(tmp, path)


# the recorder the attached monitors write to (one per process)
REC = None


def set_recorder(r):
    global REC
    REC = r
    return r
