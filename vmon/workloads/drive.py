"""Drivers: apply every rule at every match of a tree (the way mathy's agents do:
clone_from_root then apply_to), rewrite episodes (W7)."""
from .. import core
from ..monitors import rules as MR
from ..oracles import shadow as S


def parse(text):
    from mathy_core.parser import ExpressionParser

    from . import copies as _CP

    # (every 13th tree any workload parses reaches it as a deep copy / an unpickled copy of what the parser returned)
    return _CP.routed(ExpressionParser().parse(text), "parsed-tree", every=13)


def is_long(sh):
    """a long-text start (or something rewritten from it): small constants, but far more nodes and
    depth than the generated expressions; allowed up to 600 nodes / depth 300"""
    return MR._max_abs_const(sh) <= 10 ** 6 and 160 < S.size(sh) <= 600 and S.depth(sh) <= 300 or (
        MR._max_abs_const(sh) <= 10 ** 6 and S.size(sh) <= 600 and 40 < S.depth(sh) <= 300)


def too_big(sh, big=False):
    """big=True: the caller drives no factoring rule, so constants may grow to 1e60"""
    limit = 10 ** 60 if big else MR.MAX_CONST
    if MR._max_abs_const(sh) > limit or ((S.size(sh) > 160 or S.depth(sh) > 40) and not is_long(sh)):
        return True
    # constant arithmetic evaluates constant sub-expressions exactly: a power with an exponent
    # beyond 4096 (e.g. 7^4294967297 after folding '4294967296 + 1') would take minutes and
    # gigabytes, so such trees are not handed to the rules
    from ..oracles import exact as X

    return X.magnitude_bits(sh, {}, limit=400000) is None


def safe_to_evaluate(root, ctx=None):
    """False when evaluating the tree exactly could involve integers beyond ~60000 bits
    (Python's exact ** would take minutes on power towers); such pairs are not driven."""
    from ..oracles import exact as X

    sig = {k: v for k, v in (ctx or {}).items() if isinstance(v, (int, float)) and v == v and abs(v) != float("inf")}
    return X.magnitude_bits(S.shadow(root), sig) is not None


_ASK = [0]
EXPIRED = [lambda: False]   # set by the shard runner to cfg.out_of_time: inner loops stop at the deadline too


def expired():
    try:
        return bool(EXPIRED[0]())
    except Exception:
        return False


def failing_renderings(rec):
    """someone renders an UNFINISHED expression (an operator still missing an operand, a variable without a name):
    every rendering of it raises, as documented -- and leaves nothing behind that changes how other trees print"""
    from mathy_core import expressions as E

    for mk in (lambda: E.AddExpression(E.VariableExpression("x"), None), lambda: E.MultiplyExpression(E.ConstantExpression(2), E.VariableExpression(None)),
               lambda: E.EqualExpression(None, E.ConstantExpression(1))):
        t = mk()
        t.set_changed()
        for read in ("terminal_text", "raw", "__str__", "to_math_ml"):
            try:
                v = getattr(t, read)
                if callable(v):
                    v()
            except Exception:
                rec.arm("rendering:failed-on-an-unfinished-expression")


def step(rec, node, rule, check_original=False, listed=False):
    """One search-agent step: clone the whole tree via the node, apply the rule to the
    copy.  Returns the new root or None if the application raised.  With
    check_original, decides the C07/C09 clause 'the tree the copy was cloned from is not
    modified (and shares no node with the result)'."""
    root = S.root_of(node)
    if check_original:
        before = S.idshadow(root)
        ids = {id(n) for n in S.nodes_preorder(root)}
    # two agent patterns: (1) ask about this node on the live tree, then rewrite a clone of it;
    # (2) the node came out of the rule's own listing (find_nodes asked about EVERY node, this one
    # not last) and is applied without asking again.  Listed nodes alternate between the two.
    _ASK[0] += 1
    if not listed or _ASK[0] % 2:
        try:
            rule.can_apply_to(node)
        except Exception:
            pass
    copy = node.clone_from_root()
    try:
        change = rule.apply_to(copy)
        new_root = S.root_of(change.result)
        S.shadow(new_root)   # a cyclic result (already reported by the monitor) is not driven further
    except (Exception, RecursionError):
        new_root = None
    if check_original:
        rec.ev()
        rec.arm("original:checked")
        label = MR.rule_label(rule)
        if S.idshadow(root) != before:
            rec.violation("C07", f"original-modified/{label}", "the tree the rewritten copy was cloned from was modified",
                          {"rule": label, "tree": S.to_json(_sh(before)), "node_index": _index(root, node),
                           "summary": f"{label} applied to a clone modified the original tree '{S.text_of(root)}'"})
        elif new_root is not None:
            shared = [n for n in S.nodes_preorder(new_root) if id(n) in ids]
            if shared:
                rec.violation("C07", f"original-shared/{label}", "the rewritten tree shares node objects with the tree it was cloned from",
                              {"rule": label, "tree": S.to_json(S.shadow(root)), "node_index": _index(root, node),
                               "summary": f"{label}: result of rewriting a clone of '{S.text_of(root)}' shares {len(shared)} node objects with the original"})
    return new_root


def _sh(ids):
    if ids is None:
        return None
    k, p, _i, _p, _id, l, r = ids
    return (k, p, _sh(l), _sh(r))


def _index(root, node):
    for i, n in enumerate(S.nodes_inorder(root)):
        if n is node:
            return i
    return -1


def apply_everywhere(rec, root, rules, rng, cap=6, check_original=False):
    """For every rule instance, find its matches on `root` and apply it (to a clone) at up
    to `cap` of them.  Returns list of (label, index, new_root)."""
    out = []
    for label, rule in rules:
        if expired():
            break
        try:
            nodes = rule.find_nodes(root)
        except Exception:
            rec.arm("find_nodes-raised:" + label)
            continue
        if not nodes:
            continue
        rec.arm("matches:" + label, len(nodes))
        if len(nodes) > cap:
            nodes = rng.sample(nodes, cap)
        for n in nodes:
            new_root = step(rec, n, rule, check_original, listed=True)
            out.append((label, getattr(n, "r_index", None), new_root))
    return out


def _small(root, limit=150):
    n = 0
    stack = [root]
    while stack:
        x = stack.pop()
        if x is None:
            continue
        n += 1
        if n > limit:
            return False
        stack.append(x.left)
        stack.append(x.right)
    return True


def inplace_chain(rec, root, rules, rng, steps=6, big=False, on_step=None):
    """Rules are in-place operations: apply a sequence of them directly to ONE evolving tree
    object (no clone_from_root between the steps), the way the repository's own tests use
    them.  Aliased or dangling nodes left behind by one step are then acted on by the next."""
    cur = root.clone()
    done = []
    previous = []
    for _ in range(steps):
        if expired():
            break
        if rng.random() < 0.5 and _small(cur):
            # the state is shown to someone between the steps: every rendering is a pure read
            # (very deep trees are left out: the renderers recurse per level and, with the raised
            # recursion limit of the shards, would exhaust the C stack)
            # ... and so is asking for its value: with no argument at all, with None, with an empty dict (three forms
            # of 'no assignment'; a tree with variables answers each of them with the documented ValueError)
            for form in ((), (None,), ({},)):
                try:
                    cur.evaluate(*form)
                except Exception:
                    pass
            for read in ("terminal_text", "raw", "to_math_ml", "__str__"):
                if read == "to_math_ml" and not _small(cur, 30):
                    continue   # MultiplyExpression.to_math_ml_fragment renders both operands twice: 2^depth on product chains
                try:
                    v = getattr(cur, read)
                    if callable(v):
                        v()
                except Exception:
                    pass
            rec.arm("inplace:renderings-read-between-steps")
            if rng.random() < 0.2:
                failing_renderings(rec)
        cands = []
        # the listing is usually made on the whole tree, sometimes only on a part of it (one side of
        # an equation, one operand): find_nodes numbers the nodes of whatever it was given
        scope = cur
        if rng.random() < 0.3:
            parts = [c for c in (cur.left, cur.right) if c is not None and (c.left is not None or c.right is not None)]
            if parts:
                scope = rng.choice(parts)
                if rng.random() < 0.4:
                    inner = [n for n in S.nodes_preorder(scope) if n.left is not None or n.right is not None]
                    scope = rng.choice(inner)
                rec.arm("inplace:listed-on-a-subtree")
        for label, rule in rules:
            try:
                nodes = rule.find_nodes(scope)
            except Exception:
                continue
            if nodes:
                cands.append((label, rule, nodes))
        # an agent may also act on a node from the listing it made BEFORE the last step, as long as
        # the node is still part of the tree and the rule still applies there
        stale = []
        if previous and rng.random() < 0.3:
            reachable = {id(m) for m in S.nodes_preorder(cur)}   # (a replaced node keeps a stale parent pointer)
            for label, rule, nodes in previous:
                live = []
                for n in nodes:
                    try:
                        if id(n) in reachable and rule.can_apply_to(n):
                            live.append(n)
                    except Exception:
                        pass
                if live:
                    stale.append((label, rule, live))
        previous = cands
        if stale:
            cands = stale
            rec.arm("inplace:node-from-the-previous-listing")
        if not cands:
            break
        label, rule, nodes = rng.choice(cands)
        node = rng.choice(nodes)
        try:
            change = rule.apply_to(node)
            cur = S.root_of(change.result)
            S.shadow(cur)
        except (Exception, RecursionError):
            break
        done.append((label, getattr(node, "r_index", None)))
        if on_step is not None and on_step(cur, done) is False:
            break
        try:
            if too_big(S.shadow(cur), big):
                break
        except RecursionError:
            break
    rec.arm("inplace-chains")
    rec.arm("inplace-chain-steps", len(done))
    return cur, done


def apply_from_subtree_listing(rec, root, rules, rng, cap=2):
    """The listing is made on ONE operand / one side of the equation only (find_nodes numbers the
    nodes of the subtree it is given, from 0), and each listed node is then rewritten in place in
    the whole tree.  Every application starts from a fresh clone of `root`."""
    for label, rule in rules:
        if expired():
            return
        for side in ("left", "right"):
            try:
                tree = root.clone()
                part = getattr(tree, side)
                if part is None or (part.left is None and part.right is None):
                    continue
                n_found = len(rule.find_nodes(part))
            except Exception:
                continue
            for k in range(min(cap, n_found)):
                try:
                    tree = root.clone()
                    nodes = rule.find_nodes(getattr(tree, side))
                    if k >= len(nodes):
                        break
                    rec.arm("apply:listed-on-one-side-only")
                    rule.apply_to(nodes[k if rng.random() < 0.5 else len(nodes) - 1 - k])
                except (Exception, RecursionError):
                    pass


def inplace_pairs(rec, root, rules, rng, first=8, second=6, big=False):
    """Two in-place steps on one tree object, systematically: up to `first` (rule, node) choices
    for step one, and for each of them up to `second` choices for step two on the tree that step
    one left behind (no clone in between; every pair starts from a fresh clone of `root`)."""
    def listing(tree):
        out = []
        for label, rule in rules:
            try:
                for k in range(len(rule.find_nodes(tree))):
                    out.append((label, rule, k))
            except Exception:
                pass
        return out

    def do(tree, label, rule, k):
        nodes = rule.find_nodes(tree)
        if k >= len(nodes):
            return None
        res = S.root_of(rule.apply_to(nodes[k]).result)
        S.shadow(res)
        return res

    try:
        c1 = listing(root.clone())
    except (Exception, RecursionError):
        return
    if len(c1) > first:
        c1 = rng.sample(c1, first)
    for label1, rule1, k1 in c1:
        if expired():
            return
        try:
            mid = do(root.clone(), label1, rule1, k1)
            if mid is None or too_big(S.shadow(mid), big):
                continue
            c2 = listing(mid)
        except (Exception, RecursionError):
            continue
        # steps that act near the first one are the interesting ones, but all are eligible
        if len(c2) > second:
            c2 = rng.sample(c2, second)
        for j, (label2, rule2, k2) in enumerate(c2):
            try:
                tree = mid if j == len(c2) - 1 else do(root.clone(), label1, rule1, k1)
                if tree is None:
                    continue
                do(tree, label2, rule2, k2)
                rec.arm("inplace:two-step-pairs")
            except (Exception, RecursionError):
                pass
        # the same, but step two takes its node from the listings made BEFORE step one (an agent that
        # lists once and acts twice): only nodes that are still part of the tree and at which the
        # rule still reports applicable
        for _ in range(3):
            try:
                tree = root.clone()
                before = {}
                for label, rule in rules:
                    try:
                        before[label] = (rule, list(rule.find_nodes(tree)))
                    except Exception:
                        pass
                nodes1 = before.get(label1, (None, []))[1]
                if k1 >= len(nodes1):
                    break
                tree = S.root_of(rule1.apply_to(nodes1[k1]).result)
                reachable = {id(m) for m in S.nodes_preorder(tree)}
                opts = []
                for label2, (rule2, nodes2) in before.items():
                    for n2 in nodes2:
                        if id(n2) in reachable and rule2.can_apply_to(n2):
                            opts.append((rule2, n2))
                if not opts:
                    break
                rule2, n2 = rng.choice(opts)
                rec.arm("inplace:second-step-from-the-first-listing")
                rule2.apply_to(n2)
            except (Exception, RecursionError):
                pass


def replay_apply(w):
    """Re-drive one recorded application: witness has tree (JSON shadow), rule, node_index."""
    root = S.build(S.from_json(w["tree"]))
    if w.get("ids_preorder"):
        for n, i in zip(S.nodes_preorder(root), w["ids_preorder"]):
            n.id = i
    rule = MR.make_rule(w["rule"])
    node = S.nodes_inorder(root)[w["node_index"]]
    MR.HINTS[:] = []
    if "sigma" in w:
        from ..oracles import exact as X

        MR.HINTS.append(X.sigma_from_json(w["sigma"]))
    try:
        rule.apply_to(node)
    except Exception:
        pass
    MR.HINTS[:] = []


# ------------------------------------------------------------------ W7 episodes

ARM_USE = {}


def signature(sh):
    return frozenset(S.bigrams(sh))


class Episode:
    """A sequence of rewrites from one start tree, each applied to clone_from_root()."""

    def __init__(self, start_root, rng, policy="balanced"):
        self.rng = rng
        self.policy = policy
        self.root = start_root
        self.states = [(start_root, S.idshadow(start_root))]
        self.steps = []
        self.rules_used = set()
        self.seen_sigs = {signature(S.shadow(start_root))}

    def candidates(self, rules):
        cands = []
        for label, rule in rules:
            try:
                nodes = rule.find_nodes(self.root)
            except Exception:
                continue
            if nodes:
                cands.append((label, rule, nodes))
        return cands

    def next(self, rec, rules):
        cands = self.candidates(rules)
        if not cands:
            return None
        if self.policy == "novelty":
            # prefer the (rule, classification arm, parent kind) that this process has applied
            # least often so far: rare arms and rare contexts get their share of the steps
            best, best_n = None, None
            for _ in range(6):
                label, rule, nodes = self.rng.choice(cands)
                node = self.rng.choice(nodes)
                key = (label, MR.type_tag(rule, node), S.kind(node.parent) if node.parent is not None else "root")
                n = ARM_USE.get(key, 0)
                if best is None or n < best_n:
                    best, best_n, best_key = (label, rule, node), n, key
                if n == 0:
                    break
            ARM_USE[best_key] = ARM_USE.get(best_key, 0) + 1
            label, rule, node = best
        else:
            label, rule, nodes = self.rng.choice(cands)
            node = self.rng.choice(nodes)
        index = getattr(node, "r_index", None)
        new_root = step(rec, node, rule, listed=True)
        self.steps.append((label, index))
        self.rules_used.add(label)
        if new_root is None:
            return False
        self.root = new_root
        self.states.append((new_root, S.idshadow(new_root)))
        self.seen_sigs.add(signature(S.shadow(new_root)))
        return True

    def earlier_states_intact(self):
        """index of the first recorded state whose identity-level shadow changed, or None"""
        for i, (root, ids) in enumerate(self.states):
            if S.idshadow(root) != ids:
                return i
        return None
