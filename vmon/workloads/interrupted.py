"""Histories of the form 'a call is cut short, then valid calls follow' (see vmon/failpoints.py),
one family of cases per component.  The interrupted calls and the probes afterwards use the plain
functions (the monitors would judge the interruption we provoked ourselves); outcomes are compared
with what fresh objects answered before anything was interrupted."""
from .. import failpoints as FP
from ..oracles import shadow as S
from . import drive as D


def _plain(cls, name):
    f = getattr(cls, name)
    return getattr(f, "__vmon_original__", f)


def _outcome(fn):
    try:
        r = fn()
    except RecursionError:
        return ("raised", "RecursionError")
    except BaseException as e:       # noqa: BLE001
        return ("raised", type(e).__name__)
    return ("ok", r)


def parser_cases(rec, prop, key="history/after-interruption"):
    from mathy_core.parser import ExpressionParser

    parse, tokenize = _plain(ExpressionParser, "parse"), _plain(ExpressionParser, "tokenize")

    def tree(p, t):
        return _outcome(lambda: S.shadow(parse(p, t)))

    def toks(p, t):
        return _outcome(lambda: [(tk.type, tk.value) for tk in tokenize(p, t)])

    def setup():
        p = ExpressionParser()
        parse(p, "2x + 1")
        try:
            parse(p, "(x")
        except Exception:
            pass
        return p

    made = 0
    for T in ("-3x + 2 - 7y", "4x^2 + 2(y - -1.5) = 7", "sgn(-4) * (2 + 5!) - -x", "(1 + 2", "-2 * (x + -3)^2 / -4"):
        probes = [T, T, "9a + 4b", "1=5+-", T + " ", "-3x + 2 - 7y"]

        def later(p, probes=probes, T=T):
            return [tree(p, t) for t in probes] + [toks(p, T), toks(p, "4 + x")]

        made += FP.after_interruption(rec, prop, key, f"parse({T!r})", setup, lambda p, T=T: parse(p, T), later)
        made += FP.after_interruption(rec, prop, key, f"the parser's tokenize({T!r})", setup, lambda p, T=T: tokenize(p, T), later, limit=8)
    rec.arm("failpoint:parser", made)


_RULES = []


def rule_question_cases(rec, prop="C06", key="can-depends-on-history/after-interruption"):
    from mathy_core.rule import BaseRule
    from ..monitors import rules as MR

    if not _RULES:
        _RULES.extend(MR.rule_instances())
    find_nodes = _plain(BaseRule, "find_nodes")

    def listing(tree):
        out = []
        for label, rule in _RULES:
            f = getattr(type(rule).find_nodes, "__vmon_original__", None) or find_nodes
            o = _outcome(lambda: f(rule, tree))
            if o[0] == "ok":
                order = S.nodes_inorder(tree)
                o = ("ok", [next(i for i, n in enumerate(order) if n is x) for x in o[1]])
            out.append((label, o))
        return out

    made = 0
    for text in ("9409 + 679", "9409x + 679x", "49y + 21y = 7", "12 + 18x + 18", "2x * 3x + 4 * (2 + 1)", "7921z^2 + 623z^2"):
        def later(tree, text=text):
            return [listing(tree), listing(D.parse(text))]

        def op(tree):
            for label, rule in _RULES:
                (getattr(type(rule).find_nodes, "__vmon_original__", None) or find_nodes)(rule, tree)

        made += FP.after_interruption(rec, prop, key, f"listing the applicable nodes of every rule on '{text}'", lambda text=text: D.parse(text), op, later, limit=40)
    # one question at a time for the rules whose answer takes a loop (factoring): most lines of such a call are inside the loop
    for text in ("9409 + 679", "9409x + 679x", "7921z^2 + 623z^2", "5041 + 497"):
        for label, rule in _RULES:
            if not label.startswith("DF"):
                continue

            def op1(tree, rule=rule):
                f = getattr(type(rule).can_apply_to, "__vmon_original__", type(rule).can_apply_to)
                return f(rule, tree)

            def later1(tree, text=text):
                return [listing(tree), listing(D.parse(text))]

            made += FP.after_interruption(rec, prop, key, f"{label}.can_apply_to on '{text}'", lambda text=text: D.parse(text), op1, later1, limit=30)
    # process-wide state (a memo table in a helper module) outlives the objects: the reference above was taken
    # with the same values and would have filled such a table before anything was interrupted.  Here every case
    # has values the process has not seen yet -- p*p + 7p for one prime p per case, cut short once -- and the
    # reference is the listing for the first prime (the listing has the same shape for every p).
    primes = [p for p in range(47, 460) if all(p % q for q in range(2, 22))]
    fp = FP.get()
    if fp.ok:
        from .. import contracts

        for form in ("{a} + {b}", "{a}x + {b}x"):
            p0 = primes[0]
            fp.enable()
            contracts.SUSPENDED[0] += 1
            try:
                t0 = D.parse(form.format(a=p0 * p0, b=7 * p0))
                want = listing(t0)
                dfs = [(l, r) for l, r in _RULES if l.startswith("DF")]
                n0 = {l: fp.lines_of(lambda r=r, t=D.parse(form.format(a=primes[1] ** 2, b=7 * primes[1])): getattr(type(r).can_apply_to, "__vmon_original__", type(r).can_apply_to)(r, t))[0] for l, r in dfs}
                for i, p in enumerate(primes[2:]):
                    label, rule = dfs[i % len(dfs)]
                    text = form.format(a=p * p, b=7 * p)
                    tree = D.parse(text)
                    n_est = max(10, n0[label] * p // primes[1])
                    k = 1 + (i * 37) % n_est
                    f = getattr(type(rule).can_apply_to, "__vmon_original__", type(rule).can_apply_to)
                    out = fp.interrupted(lambda: f(rule, tree), k, FP.EXCS[i % 2])
                    if out[0] != "injected":
                        continue
                    made += 1
                    rec.ev()
                    rec.arm("failpoint:interrupted-then-valid-calls")
                    got = [listing(tree), listing(D.parse(text))]
                    if got != [want, want]:
                        rec.violation(prop, key, "a call that was cut short changed what later valid calls answer",
                                      {"failpoint": {"what": "factoring question", "line": k, "where": out[1], "exception": FP.EXCS[i % 2].__name__},
                                       "summary": f"{label}.can_apply_to on '{text}' (values not seen before in this process) interrupted by {FP.EXCS[i % 2].__name__} at {out[1]}; afterwards the rules list "
                                       f"{str(got[0])[:150]} on the same tree and {str(got[1])[:150]} on a new parse; for '{form.format(a=p0 * p0, b=7 * p0)}' (never interrupted) they list {str(want)[:150]}"})
                        break
            finally:
                contracts.SUSPENDED[0] -= 1
                fp.disable()
    rec.arm("failpoint:rule-questions", made)


def clone_cases(rec, prop="C13", key="clone_from_root/after-interruption"):
    from mathy_core.expressions import MathExpression

    cfr, clone = _plain(MathExpression, "clone_from_root"), _plain(MathExpression, "clone")

    def probe(tree):
        want_tree = S.shadow(tree)
        ids = S.idshadow(tree)
        res = []
        for y in S.nodes_preorder(tree):
            o = _outcome(lambda: cfr(y))
            if o[0] != "ok":
                res.append(o)
                continue
            r = o[1]
            top = S.root_of(r)
            res.append((S.path_from_root(r) == S.path_from_root(y), S.shadow(top) == want_tree, S.shadow(r) == S.shadow(y), top is not tree))
        res.append(("source-unchanged", S.idshadow(tree) == ids))
        res.append(_outcome(lambda: S.shadow(clone(tree)) == want_tree))
        return res

    made = 0
    for text, pick in (("4x^2 + 2(y - 1) * z = 7 - q", 5), ("x + y", 2), ("(a + b) * (c - d) / -e", 3)):
        def op(tree, pick=pick):
            nodes = S.nodes_preorder(tree)
            return cfr(nodes[pick % len(nodes)])

        made += FP.after_interruption(rec, prop, key, f"clone_from_root via node {pick} of '{text}'", lambda text=text: D.parse(text), op, probe, limit=24)
        made += FP.after_interruption(rec, prop, key, f"clone() of '{text}'", lambda text=text: D.parse(text), lambda tree: clone(tree), probe, limit=10)
    # a refusal that needs no failpoint: clone_from_root asked for a node of ANOTHER tree (same class path)
    for text in ("x + y", "2a * (b + c) = d"):
        import contextlib
        import io
        from .. import contracts

        with contracts.suspended(), contextlib.redirect_stdout(io.StringIO()):      # (the refusal prints a diagnostic before it raises)
            tree, other = D.parse(text), D.parse(text)
            want = probe(D.parse(text))
            for y in S.nodes_preorder(tree)[1:]:
                for foreign in S.nodes_preorder(other)[1:3]:
                    try:
                        cfr(y, foreign)
                    except BaseException:       # noqa: BLE001
                        pass
            got = probe(tree)
        rec.ev()
        rec.arm("failpoint:refused-clone_from_root-then-valid-calls")
        if got != want:
            rec.violation(prop, key, "a call that was refused changed what later valid calls answer",
                          {"failpoint": {"what": "foreign node"}, "summary": f"'{text}': clone_from_root(node of another tree) was asked of every node (refused or not); afterwards clone_from_root via the nodes "
                           f"of the tree answers {str(got)[:200]} instead of {str(want)[:200]} (per node: same position, whole tree copied, same subtree, new root)"})
    rec.arm("failpoint:clone", made)


def balanced_move_cases(rec, prop, key="after-interruption/BM"):
    """balanced move clones the equation itself (clone_from_root) before moving: cut short, the source must be
    as it was and later moves -- via the same node and via others -- must be what they are on a fresh tree"""
    from mathy_core.expressions import MathExpression
    from mathy_core.rules import BalancedMoveRule

    apply_to = _plain(BalancedMoveRule, "apply_to")
    find_nodes = getattr(BalancedMoveRule.find_nodes, "__vmon_original__", BalancedMoveRule.find_nodes)
    cfr, clone = _plain(MathExpression, "clone_from_root"), _plain(MathExpression, "clone")
    rule = BalancedMoveRule()

    def probe(tree):
        before = S.shadow(tree)
        snap = clone(tree)
        out = []
        for n in find_nodes(rule, tree):
            o = _outcome(lambda: apply_to(rule, n))
            if o[0] == "ok":
                root = S.root_of(o[1].result)
                o = ("ok", S.shadow(root), S.audit(root, expr=True) == [], root is not tree and root is not snap)
            out.append(o)
        out.append(("source-unchanged", S.shadow(tree) == before, S.audit(tree, expr=True) == []))
        out.append(("snapshot-unchanged", S.shadow(snap) == before))
        return out

    made = 0
    for text, which in (("x + 2 = y + z", 0), ("2x = 8 + y", 0), ("y + 4 + 2(x + 3) = 9", 1), ("3a + b = 2c - 5", 2)):
        def op_move(tree, which=which):
            nodes = find_nodes(rule, tree)
            return apply_to(rule, nodes[which % len(nodes)])

        def op_clone_inner(tree):
            leaves = [n for n in S.nodes_preorder(tree) if n.left is None and n.right is None]
            return cfr(leaves[-2])

        made += FP.after_interruption(rec, prop, key, f"a balanced move on '{text}'", lambda text=text: D.parse(text), op_move, probe, limit=24)
        made += FP.after_interruption(rec, prop, key, f"clone_from_root via an inner leaf of '{text}'", lambda text=text: D.parse(text), op_clone_inner, probe, limit=12)
    rec.arm("failpoint:balanced-move", made)


def layout_cases(rec, prop="C18", key="layout/after-interruption"):
    from mathy_core.layout import TreeLayout
    from . import shapes as W9

    layout = _plain(TreeLayout, "layout")

    def coords(t):
        return [(getattr(n, "x", None), getattr(n, "y", None)) for n in S.nodes_preorder(t)]

    made = 0
    for shp in ("((..)(.(..)))", "(((..).)((..)(..)))", "(.(.(..)))"):
        s = W9.parse_shape(shp)

        def setup(s=s):
            from mathy_core.tree import BinaryTreeNode

            return W9.build(s, lambda l, r, i: BinaryTreeNode(l, r))

        def later(t):
            o = _outcome(lambda: layout(TreeLayout(), t, 2, 3))
            m = o[1]
            return [o[0] if o[0] != "ok" else (m.minX, m.maxX, m.minY, m.maxY), coords(t), _outcome(lambda: coords(t) if layout(TreeLayout(), t) else None)]

        made += FP.after_interruption(rec, prop, key, f"layout of shape {shp}", setup, lambda t: layout(TreeLayout(), t, 2, 3), later, limit=24)
    rec.arm("failpoint:layout", made)


def evaluate_cases(rec, prop="C05", key="eval/after-a-failed-evaluation"):
    made = 0
    for text, good, bad in (("4x + (2 - y)^2 / z", {"x": 10 ** 30, "y": 5, "z": 3}, {"x": 1, "z": 2}), ("-(x + 3) * sgn(y) + 4!", {"x": 2, "y": -4}, {"y": 1}),
                            ("2x = y + 1", {"x": 3, "y": 5}, {"x": 3, "y": 6})):
        def later(tree, good=good, bad=bad):
            return [_outcome(lambda: tree.evaluate(dict(good))), _outcome(lambda: tree.evaluate(dict(bad))), _outcome(lambda: tree.evaluate(dict(good))), _outcome(lambda: tree.evaluate())]

        made += FP.after_interruption(rec, prop, key, f"evaluate of '{text}'", lambda text=text: D.parse(text), lambda tree, good=good: tree.evaluate(dict(good)), later, limit=16)
        # failures that need no failpoint: a missing variable / a false equation, then the completed context, on the same tree object
        tree = D.parse(text)
        want = later(D.parse(text))
        for _ in range(2):
            for ctx in (dict(bad), None, {}):
                try:
                    tree.evaluate(ctx)
                except BaseException:       # noqa: BLE001
                    pass
        rec.ev()
        rec.arm("failpoint:failed-evaluation-then-valid-calls")
        got = later(tree)
        if got != want:
            rec.violation(prop, key, "a call that failed changed what later valid calls answer",
                          {"failpoint": {"what": "missing variable"}, "summary": f"'{text}': evaluated without a value for a variable (ValueError as documented), then with {good}: {str(got)[:160]} instead of {str(want)[:160]}"})
    rec.arm("failpoint:evaluate", made)


def walk_cases(rec, prop="C14", key="walk/after-interruption"):
    from mathy_core.expressions import MathExpression

    to_list, find_type = _plain(MathExpression, "to_list"), _plain(MathExpression, "find_type")
    made = 0
    for text in ("4x^2 + 2(y - 1) * z = 7 - q", "-(a + b) / c + 3!"):
        def later(tree):
            pos = {id(n): i for i, n in enumerate(S.nodes_preorder(tree))}
            return [[pos[id(n)] for n in to_list(tree, o)] for o in ("preorder", "inorder", "postorder")] + [[pos[id(n)] for n in find_type(tree, MathExpression)]]

        for o in ("preorder", "inorder", "postorder"):
            made += FP.after_interruption(rec, prop, key, f"to_list({o}) of '{text}'", lambda text=text: D.parse(text), lambda tree, o=o: to_list(tree, o), later, limit=8)
    rec.arm("failpoint:walks", made)
