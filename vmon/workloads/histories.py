"""W8 -- call histories on one long-lived ExpressionParser."""
from . import text as WT


def text_pool(rng, corp, n_valid=4, n_invalid=3):
    """few distinct texts so that repeats are common"""
    pool = []
    for _ in range(n_valid):
        pool.append(rng.choice(corp) if rng.random() < 0.5 else WT.gen_text(rng, max_depth=2))
    for _ in range(n_invalid):
        c = rng.random()
        if c < 0.4:
            pool.append(WT.mutate(rng, rng.choice(pool[:n_valid]), foreign=0.1))
        elif c < 0.7:
            pool.append(WT.soup(rng, rng.randint(1, 6), foreign=0.05))
        else:
            pool.append(rng.choice(["", "4 +", "(x", "x)", "2 ^", "sgn", "sgn(", "1.2.3", "x!", "4 # 2", "=", "x = ", "--4", "4 4", "()", "4 + * 2", "-", "^2"]))
    # near-duplicates: same text with different padding (cache keys must not conflate them)
    v = pool[0]
    pool.append(" " + v)
    pool.append(v + " ")
    pool.append(v.replace(" ", ""))
    pool.append(v.swapcase())
    pool.append(v[:-1])
    pool.append(v[1:-1])
    pool.append(v[1:])
    # what str.strip() / str.split() / unicodedata.normalize() would fold away but the alphabet does not have: a
    # cache key "cleaned" that way conflates a rejected text with an accepted one (or with another rejected one)
    ws = rng.choice(["\xa0", "\x0c", "\x0b", "\x1c", "\x1f", "\x85", "\u2003", "\u2028", "\u3000", "\ufeff"])
    bad = rng.choice(["4 +", "(x", "2x^", "4 * / 2", "(1 + 2"])
    pool += [ws + v, v + ws, v.replace(" ", ws, 1) if " " in v else v + ws + "1", bad, bad + ws, ws + bad]
    digs = [i for i, ch in enumerate(v) if ch.isdigit()]
    if digs:
        i = rng.choice(digs)
        pool.append(v[:i] + chr(0xFF10 + int(v[i])) + v[i + 1:])      # a full-width digit (NFKC maps it to the ASCII one)
    # a text and what the library itself prints for it (a caller that echoes states back: '-(3)' prints as '-3',
    # which is another tree): a cache must not file one under the other
    pair = rng.choice([("-(3)", "-3"), ("-(3) + x", "-3 + x"), ("2 * x", "2x"), ("(x)", "x"), ("x^(2)", "x^2"), ("(2 + 3) + 4", "2 + 3 + 4"), ("2 + (3 + 4)", "2 + 3 + 4"),
                       ("4 * (x)", "4x"), ("-(x)", "-x"), ("(1 / 2) / 3", "1 / 2 / 3"), ("2 - (3)", "2 - 3"), ("-(3)^2", "-3^2")])
    pool += list(pair)
    try:
        from mathy_core.parser import ExpressionParser as _EP

        for vv in pool[:2]:
            printed = str(getattr(_EP.parse, "__vmon_original__", _EP.parse)(_EP(), vv))
            if printed != vv:
                pool.append(printed)
    except Exception:
        pass
    # parenthesised groups at both ends whose outer parentheses do NOT pair with each other, and the peeled form
    a_, b_ = rng.choice(["a", "x + 1", "2y", "4"]), rng.choice(["b", "x - 1", "3", "z^2"])
    grp = f"({a_}){rng.choice(['+', ' * ', '', ' - '])}({b_})"
    pool += [grp, grp[1:-1], "(" + grp + ")", "((" + a_ + "))", "(" + a_ + ")"]
    # padding inside a token (between two digits, inside a function name) changes the tokens
    for _ in range(2):
        i = rng.randrange(len(v) + 1) if v else 0
        pool.append(v[:i] + rng.choice([" ", "\t"]) + v[i:])
    multi = [i for i in range(1, len(v)) if v[i - 1].isdigit() and v[i].isdigit()] + [i for i in range(1, len(v)) if v[i - 1].isalpha() and v[i].isalpha()]
    if multi:
        i = rng.choice(multi)
        pool.append(v[:i] + " " + v[i:])
    else:
        pool.append("12 + sgn(x)")
        pool.append("1 2 + sg n(x)")
    return pool


EDITS = ("pop0", "clear", "overwrite", "extend", "reverse")


def apply_edit(lst, op, arg=0):
    if op == "pop0":
        if lst:
            lst.pop(0)
    elif op == "clear":
        lst.clear()
    elif op == "overwrite":
        if lst:
            lst[arg % len(lst)] = lst[-1]
    elif op == "extend":
        lst.extend(lst[:2])
    elif op == "reverse":
        lst.reverse()


def make_script(rng, pool, n_calls, edit_lists=True):
    """list of ops: ('parse', text) ('tokenize', text) ('clear_cache',) ('edit', k, op, arg)
    where k indexes the k-th successfully returned token list (modulo)."""
    script = []
    for _ in range(n_calls):
        c = rng.random()
        t = rng.choice(pool)
        if c < 0.55:
            script.append(("parse", t))
        elif c < 0.90:
            script.append(("tokenize", t))
        elif c < 0.96:
            script.append(("clear_cache",))
        elif c < 0.985:
            script.append(("copy", rng.choice(["deepcopy", "pickle", "copy"])))
        if edit_lists and rng.random() < 0.5:
            script.append(("edit", rng.randrange(1000), rng.choice(EDITS), rng.randrange(50)))
    return script


def run_script(parser, script):
    handed = []
    stats = {"parse": 0, "tokenize": 0, "clear_cache": 0, "edits": 0, "failures": 0}
    hist = getattr(parser, "_vmon_history", None)
    for op in script:
        if op[0] == "parse":
            stats["parse"] += 1
            try:
                # (both call forms of the documented signature, by turns)
                if stats["parse"] % 3 == 0:
                    parser.parse(input_text=op[1])
                else:
                    parser.parse(op[1])
            except Exception:
                stats["failures"] += 1
        elif op[0] == "tokenize":
            stats["tokenize"] += 1
            try:
                handed.append(parser.tokenize(input_text=op[1]) if stats["tokenize"] % 3 == 0 else parser.tokenize(op[1]))
            except Exception:
                stats["failures"] += 1
        elif op[0] == "clear_cache":
            stats["clear_cache"] += 1
            parser.clear_cache()
            if hist is not None:
                hist.append(("clear_cache", "", "ok"))
        elif op[0] == "copy":
            # the parser goes on as a copy of itself (a snapshot of a search state, a worker process): caches,
            # settings and history travel with it
            import copy as _copy
            import pickle as _pickle

            try:
                new = _copy.deepcopy(parser) if op[1] == "deepcopy" else _pickle.loads(_pickle.dumps(parser)) if op[1] == "pickle" else _copy.copy(parser)
            except Exception:
                new = None
            if new is not None:
                parser = new
                stats["copies"] = stats.get("copies", 0) + 1
                hist = getattr(parser, "_vmon_history", None)
                if hist is not None:
                    if op[1] == "copy":
                        parser._vmon_history = hist = list(hist)
                    hist.append(("copy", "", op[1]))
        elif op[0] == "edit" and handed:
            stats["edits"] += 1
            apply_edit(handed[op[1] % len(handed)], op[2], op[3])
            if hist is not None:
                hist.append(("edit", "", f"{op[1]}:{op[2]}:{op[3]}"))
    return stats


def replay_history(parser, hist):
    """re-drive a recorded monitor history (entries (kind, text, outcome))"""
    script = []
    for kind, text, out in hist:
        if kind in ("parse", "tokenize"):
            script.append((kind, text))
        elif kind == "clear_cache":
            script.append(("clear_cache",))
        elif kind == "copy":
            script.append(("copy", out))
        elif kind == "edit":
            k, op, arg = out.split(":")
            script.append(("edit", int(k), op, int(arg)))
    return run_script(parser, script)


def drive_history(parser, rng, pool, n_calls, edit_lists=True):
    return run_script(parser, make_script(rng, pool, n_calls, edit_lists))


def two_parsers(rec, rng, corp, prop, rounds, token_key="history/tokens"):
    """Two parsers that live side by side with DIFFERENT tokenizer settings (one knows the
    function name 'abs' and/or keeps padding, the other is stock).  Both are constructed before
    anything is parsed and no parser is constructed while they work (the monitors active for them
    use only the reference grammar / reference tokenizer), because constructing a parser is itself
    an event that may reset shared state.  The same texts go to both, in either order."""
    from .. import core
    from ..oracles import refgrammar as G
    from mathy_core.expressions import AbsExpression
    from mathy_core.parser import ExpressionParser

    for _ in range(rounds):
        a, b = ExpressionParser(), ExpressionParser()
        a.tokenizer.functions["abs"] = AbsExpression
        a.tokenizer._vmon_funcs = {"sgn": "Sgn", "abs": "Abs"}
        keep = False   # (a parser whose tokenizer keeps padding cannot parse at all: not a supported setting)
        a._vmon_checks = b._vmon_checks = {"grammar", "closure"}
        texts = ["abs(x) + 2", "abs(y)", "2abs", "sgn(abs(x - 7))", "abs(-4) + abs(34)", "4x + 2y", "x^abs", "abs"]
        for _ in range(4):
            t = rng.choice(corp)
            texts.append(t)
            texts.append(t.replace("sgn", "abs") if "sgn" in t else "abs(" + t[:10] + ")")
        rng.shuffle(texts)
        for t in texts:
            order = [a, b] if rng.random() < 0.5 else [b, a]
            for p in order + order[:1]:
                rec.arm("two-parsers:calls")
                if rng.random() < 0.5:
                    try:
                        toks = p.tokenize(t)
                    except Exception:
                        toks = None
                    if toks is not None:
                        from ..monitors import parse as MP

                        MP.check_tokens(prop, t, not p.tokenizer.exclude_padding, toks, None, funcs=getattr(p.tokenizer, "_vmon_funcs", None))
                try:
                    p.parse(t)
                except Exception:
                    pass


def marathon(rec, rng, prop, n_texts=4200, altered_key="history/earlier-result-altered"):
    """One parser that stays in service for thousands of DISTINCT texts (a bounded cache only starts
    evicting then), after a few failed parses and tokenize-only calls (texts that enter one cache
    but not the other).  Every call is decided by the monitors attached for `prop`; in addition the
    first results handed out are kept and must still be what they were at the end."""
    from ..oracles import shadow as S
    from mathy_core.parser import ExpressionParser

    p = ExpressionParser()
    p._vmon_history = []
    for t in ("4x +", "(x", "2 ^", "x = ", "4 4", "7 + * 2"):
        try:
            p.parse(t)
        except Exception:
            pass
    for t in ("7y + 1", "(a + b)(c - d)", "sgn(x)"):
        try:
            p.tokenize(t)
        except Exception:
            pass
    kept = []
    forms = ["{i}x + {j}", "{i} * (y + {j})", "{i}z^2 - {j}z", "({i} + x) / {j}", "-{i}q = {j}"]
    for i in range(n_texts):
        t = forms[i % len(forms)].format(i=i + 2, j=(i % 11) + 1)
        try:
            r = p.parse(t)
        except Exception:
            r = None
        if r is not None and len(kept) < 6:
            kept.append((t, r, S.shadow(r)))
        if i % 9 == 3:
            # a failure INSIDE a group every now and then (whatever such a failure leaves behind adds up)
            for bad in (f"{i} * (x +", f"sgn({i} -", f"(({i}y"):
                try:
                    p.parse(bad)
                except Exception:
                    pass
        if i == 3000:
            # late in its life (long after any bounded cache has started evicting: the trees kept above belong to
            # THIS object's history) the parser goes on as a copy of itself (a worker process unpickles it, a search
            # deep-copies its state)
            from . import copies as _CP

            p = _CP.routed(p, "parser", every=1, shallow=True)
        if i % 613 == 5:
            try:
                p.parse(f"{i} + * {i}")
            except Exception:
                pass
            try:
                p.tokenize(f"{i}w + 1")
            except Exception:
                pass
        if len(p._vmon_history) > 400:
            del p._vmon_history[:-200]
    rec.arm("marathon:texts", n_texts)
    for t, r, sh in kept:
        rec.ev()
        try:
            now = S.shadow(r)
        except Exception:
            now = None
        if now != sh:
            rec.violation(prop, altered_key, "a tree handed out by parse() was altered by later calls on the parser",
                          {"text": t, "marathon": True, "summary": f"parse({t!r}) was kept by the caller; after {n_texts} further distinct texts on the same parser the kept tree "
                           f"reads {S.text_of(r) if now is not None else '<unreadable>'!r}"})


def typed(rec, rng, texts):
    """A text arrives one keystroke at a time (an input box that re-parses on every change): every
    prefix is tokenized / parsed on the same parser, in order.  Decided by the monitors attached."""
    from mathy_core.parser import ExpressionParser

    for t in texts:
        p = ExpressionParser()
        p._vmon_history = []
        for i in range(1, len(t) + 1):
            pre = t[:i]
            for f in ((p.tokenize, p.parse) if i % 2 else (p.parse, p.tokenize)):
                try:
                    f(pre)
                except Exception:
                    pass
        rec.arm("history:typed-character-by-character")


TYPED_TEXTS = ["4 + sgn(x)", "sgn(x) * sgnx", "2sgn(3y) - 1", "12.5x^2 + 7", "x = sgn(-4)", "(a + b)(c - d)", "3! + sgn(2)", "s + sg + sgn + sgnn", "1 000 + 2", "4x^-2.5 = y"]


def deep_under_default_limit(rec, prop):
    """inputs of nesting depth 0 or 1 but great LENGTH, under the interpreter's default recursion
    limit: sums and products are parsed by loops, so such inputs are answered (a tree, or a parser
    error for the broken ones) -- never with the interpreter's RecursionError"""
    import sys
    from mathy_core.parser import ExpressionParser

    chain = " + ".join(["x"] * 420)
    prod = " * ".join(["y"] * 380)
    texts = ["sgn(" + chain, "sgn(" + prod, "2 * sgn(1 - " + chain, "(" + chain, chain + " +", "sgn(" + chain + ")", chain + " = " + prod + ")", "sgn(" + chain + " 4"]
    flat = " + ".join(f"{(i % 9) + 1}{'xyz'[i % 3]}" for i in range(900))          # ~3600 tokens, nesting depth 0
    texts += [flat + " + 2 *", flat + " -", flat + " * /", flat + " + 4^-", "- - - " + flat, flat + " - - -", flat + " + (", flat + " + 2 /", flat + " = ", flat + " + 4^", flat + " 7"]
    old = sys.getrecursionlimit()
    for t in texts:
        p = ExpressionParser()
        sys.setrecursionlimit(1000)
        try:
            try:
                p.parse(t)
            except Exception:
                pass
            except RecursionError:
                pass
        finally:
            sys.setrecursionlimit(old)
        rec.arm("parse:long-flat-input-under-the-default-recursion-limit")
