"""W1 corpus, W3 grammar-directed random text, W5 token soups and mutations."""
import glob
import json
import os
import re

from .. import load

VARS = "abcdfghjklmnopqrstuvwxyz"

CURATED = [
    "4x + 2x", "4x^2 + 2x^2 - 7", "(a + b) + c", "a + (b + c)", "(x * y) * z", "2 * 8 * x", "2x * 8", "4x/2y^7",
    "4x+ (1/3)y + 7x", "4x+ 1/3y + 7x", "x+y=z", "(28 + 1j)(17j + 2y)", "(4x^3 + y) * 2x", "7a + 4x + (2f + j) + x + 3d",
    "2a + 3j - 7b + 17.2a + j", "-(3 + 2)", "-x^2", "-4^2", "(-4)^2", "-(x)^2", "4!", "5! + 3", "-3!", "sgn(x)", "sgn(-3) * 2",
    "sgn(x + 1)y", "2sgn(x)", "8 / 2 / 2", "8 / 2 * 2", "8 * 2 / 2", "a / b / c", "a / b * c", "a - b - c", "a - (b - c)",
    "2^3", "x^2^3", "x^y^2", "(x^2)^3", "2xy^2", "xyz", "xy^2z", "2(x + 1)", "(x + 1)(x - 1)", "(x + 1)^2", "2x^2y^3", "x^-1",
    "x^-y", "2^-3", "1/2x", "1 / (2x)", "3 = 3", "2x = 4", "x + 1 = y = z", "4 - -3", "4 - -x", "4 + -3x^2", "-(-x)", "-(-(x))",
    "0x = 0", "0.5x^2 + 0.5x^2", "1000000000000000000000x", ".5 + 1.", "007", "4 [x + 1]", "4 – 2", "  4  +  2  ", "4\t+\n2",
    "y^0 + y", "4 - (3 - x)", "a - 6^2", "sgn(3 + x) = y", "y^(1 + 2) = 8", "(3y)^3", "(-x)^2", "x^(2^3)", "((5y^0)^0)^3",
    "12.5x + 2.5x", "9x^2 * 3x^4", "x * x^3", "4x * 2y * 5x * 3y", "(36c^6 * u^3) * 7u^3", "792z^4 * 490f * q^3",
    "(u^3 * 36c^6) * 7u^3", "5 * (8h * t)", "(7 * 10y^3) * x", "(7q * 10y^3) * x", "4 / -(2 + 3)", "(2 + 3z) / -z",
    "(21x^3 - 35x^2) / 7x", "3x + 7 = 2 + 4x", "3x + 1 = 4", "2x = 6x - 8", "-9 = -10 - -h", "s = 6 - 5",
    "11n + -(-4 + 3) * s^2", "(2 + k^2) * w^4", "4x + -3x", "g + -x^3 + 4x^3 + 19p^4 + -1y", "x * y + x * z", "10 + 5 + x",
    "(4 + p) + p", "p + (p + 2x)", "(a + 2x) + (3x + b)", "4 + 84", "6 + 4", "2 + (3 + x)", "2 * (3 * x)", "(4n * 2) + 3",
]


def corpus():
    """Strings found in the repository (rule example files, docs, tests) + curated list.
    Deterministic order; duplicates removed."""
    out = list(CURATED)
    root = load.REPO
    for f in sorted(glob.glob(os.path.join(root, "mathy_core", "rules", "*.test.json"))):
        try:
            d = json.load(open(f))
        except Exception:
            continue
        for sect in ("valid", "invalid"):
            for ex in d.get(sect, []):
                for key in ("input", "output", "target"):
                    if isinstance(ex.get(key), str):
                        out.append(ex[key])
    pats = []
    for pat in ("mathy_core/*.md", "mathy_core/rules/*.md", "README.md", "mathy_core/*.py", "mathy_core/rules/*.py", "tests/*.py"):
        pats += sorted(glob.glob(os.path.join(root, pat)))
    for f in pats:
        try:
            txt = open(f, encoding="utf-8").read()
        except Exception:
            continue
        out += re.findall(r"`mathy:([^`\n]+)`", txt)
        if f.endswith(".py") and os.sep + "tests" + os.sep in f:
            for m in re.findall(r"\"([0-9a-z ()+\-*/^=!.]{3,60})\"", txt):
                if re.search(r"[0-9a-z]", m) and re.search(r"[+\-*/^=!(]", m):
                    out.append(m)
    seen = set()
    res = []
    for s in out:
        s = s.strip()
        if s and s not in seen:
            seen.add(s)
            res.append(s)
    return res


def rule_examples():
    """(rule file stem, section, example dict) for every example in rules/*.test.json"""
    out = []
    for f in sorted(glob.glob(os.path.join(load.REPO, "mathy_core", "rules", "*.test.json"))):
        stem = os.path.basename(f)[: -len(".test.json")]
        try:
            d = json.load(open(f))
        except Exception:
            continue
        for sect in ("valid", "invalid"):
            for ex in d.get(sect, []):
                out.append((stem, sect, ex))
    return out


# ------------------------------------------------------------------ W3 generator

class Gen:
    """Grammar-directed random text.  Knobs choose the constant / exponent classes and
    the whitespace style; every string it returns is derivable from the documented
    grammar (Appendix A of DESIGN.md)."""

    def __init__(self, rng, max_depth=4, vars_=None, big=True, decimals=True, funcs=True, fact=True,
                 equations=0.15, spaces=None, exps="mixed", div=True):
        self.r = rng
        self.max_depth = max_depth
        self.vars = vars_ or rng.sample(VARS, rng.randint(1, 4))
        self.big = big
        self.decimals = decimals
        self.funcs = funcs
        self.fact = fact
        self.equations = equations
        self.spaces = spaces if spaces is not None else rng.choice(["one", "one", "one", "none", "mixed"])
        self.exps = exps
        self.div = div

    def sp(self):
        if self.spaces == "one":
            return " "
        if self.spaces == "none":
            return ""
        return self.r.choice(["", " ", "  ", "\t", " \n"])

    def const(self, allow_zero=True):
        r = self.r
        c = r.random()
        if c < 0.45:
            return str(r.randint(1, 12))
        if c < 0.55 and allow_zero:
            return r.choice(["0", "1", "1", "0"])
        if c < 0.70:
            return str(r.randint(13, 2000))
        if c < 0.85 and self.decimals:
            return r.choice(["0.5", "2.5", "0.25", "1.5", "0.1", "0.2", "0.3", "12.75", "3.14", "0.001", ".5", "1.", "17.2", "100.125", "0.00002", "0.0000001",
                             "123456.789", "0.000001234", "99999.99999"])
        if c < 0.92 and self.big:
            return r.choice(["9223372036854775807", "9223372036854775808", "18446744073709551616", "4294967296", "2147483648",
                             "1000000000000000000000", "123456789012345678901234567890", "99999999999"])
        if c < 0.95:
            return r.choice(["007", "00", "10", "100"])
        return str(r.randint(1, 12))

    def exponent(self):
        r = self.r
        mode = self.exps
        c = r.random()
        if mode == "small" or c < 0.55:
            return str(r.choice([2, 2, 3, 4, 2, 3, 5, 1, 0]))
        if c < 0.65:
            return "-" + str(r.choice([1, 2, 3]))
        if c < 0.72:
            return r.choice(["0.5", "2.5", "1.5", "0.25"])
        if c < 0.80:
            return r.choice(self.vars)
        if c < 0.88:
            return "(" + self.add(self.max_depth - 1) + ")"
        if c < 0.92:
            return r.choice(["10", "16", "31", "40", "63", "64"])
        return str(r.choice([2, 3]))

    def atom(self, d):
        r = self.r
        c = r.random()
        if d >= self.max_depth or c < 0.6:
            return r.choice(self.vars)
        if c < 0.7 and self.funcs:
            return "sgn(" + self.add(d + 1) + ")"
        o, cl = r.choice([("(", ")"), ("(", ")"), ("(", ")"), ("[", "]")])
        return o + self.add(d + 1) + cl

    def factors(self, d):
        r = self.r
        n = 1 if r.random() < 0.65 else r.randint(2, 3)
        s = "".join(self.atom(d) for _ in range(n))
        if r.random() < 0.35:
            s += "^" + self.exp_operand(d)
        return s

    def exp_operand(self, d):
        return self.exponent()

    def unary(self, d):
        r = self.r
        neg = "-" if r.random() < 0.15 else ""
        if neg and r.random() < 0.1:
            neg = "–"
        c = r.random()
        if c < 0.30:
            body = self.const()
            if self.fact and r.random() < 0.08:
                body = str(r.randint(0, 12)) + "!"
        elif c < 0.65:
            body = self.const(allow_zero=False) + self.factors(d)
        else:
            body = self.factors(d)
        return neg + body

    def exp(self, d):
        s = self.unary(d)
        if self.r.random() < 0.12:
            s += "^" + self.exponent()
        return s

    def mult(self, d):
        r = self.r
        s = self.exp(d)
        n = 0
        while r.random() < 0.3 and n < 3:
            op = "/" if (self.div and r.random() < 0.4) else "*"
            s += self.sp() + op + self.sp() + self.exp(d)
            n += 1
        return s

    def add(self, d=0):
        r = self.r
        s = self.mult(d)
        n = 0
        lim = 4 if d == 0 else 2
        while r.random() < (0.7 if d == 0 else 0.45) and n < lim:
            op = r.choice("+-") if r.random() < 0.8 else r.choice(["+", "–"])
            s += self.sp() + op + self.sp() + self.mult(d)
            n += 1
        return s

    def start(self):
        s = self.add(0)
        if self.r.random() < self.equations:
            s += self.sp() + "=" + self.sp() + self.add(0)
            if self.r.random() < 0.05:
                s += self.sp() + "=" + self.sp() + self.add(1)
        if self.spaces == "mixed" and self.r.random() < 0.3:
            s = self.sp() + s + self.sp()
        return s


def gen_text(rng, **kw):
    return Gen(rng, **kw).start()


# ------------------------------------------------------------------ W5 soups / mutations

ALPHABET_TOKENS = ["0", "1", "2", "7", "12", "3.5", ".", "1.2.3", "x", "y", "z", "ab", "sgn", "sgn(", "sg", "sgnx", "+", "-", "–", "*", "/",
                   "^", "!", "(", ")", "[", "]", "=", " ", "  ", "\t", "\n", "\r"]
FOREIGN = ["#", "$", "%", "&", "@", "_", "{", "}", "|", "~", ",", ";", ":", "'", '"', "<", ">", "?", "\\", "é", "π", "٣", "２", "x́",
           "−", " ", " ", "\x00", "\x0b", "\x0c", "e5", "1e5", "²", "×", "÷", "√",
           # characters that case-fold or normalise to ASCII letters / digits (Kelvin sign, long s, dotless and
           # dotted i, fullwidth letters, mathematical alphanumerics), also directly after a letter or digit
           "\u212a", "\u017f", "\u0131", "\u0130", "x\u212a", "s\u017f", "4\u0131", "a\u0130b", "\uff58", "\uff11", "x\uff58", "1\uff11", "\U0001d465", "y\U0001d7d0",
           # pairs and sequences that mean something to string formatting / templating / escaping
           "{x}", "{}", "e^{-x}", "{1, 2}", "{0}", "{y + 1}", "%s", "%d", "%(x)s", "${x}", "\\n", "\\frac{1}{2}", "{{x}}", "{!r}", "{:d}",
           "\u00b5", "x\u00b5", "\u03bc", "\u2160", "x\u2160", "\u00aa", "a\u00aa", "\u00ba", "\u2074", "x\u2074"]


def soup(rng, n=None, foreign=0.03):
    n = n or rng.randint(1, 14)
    out = []
    for _ in range(n):
        if rng.random() < foreign:
            out.append(rng.choice(FOREIGN))
        else:
            out.append(rng.choice(ALPHABET_TOKENS))
    return "".join(out)


def mutate(rng, s, foreign=0.05):
    if not s:
        return rng.choice(ALPHABET_TOKENS)
    k = rng.randint(1, 3)
    for _ in range(k):
        c = rng.random()
        i = rng.randrange(len(s) + 1)
        if c < 0.3 and s:
            j = min(len(s), i + rng.randint(1, 3))
            s = s[:i] + s[j:]
        elif c < 0.6:
            tok = rng.choice(FOREIGN) if rng.random() < foreign else rng.choice(ALPHABET_TOKENS)
            s = s[:i] + tok + s[i:]
        elif c < 0.8 and s:
            i = rng.randrange(len(s))
            s = s[:i] + rng.choice(ALPHABET_TOKENS) + s[i + 1:]
        elif c < 0.9:
            s = s[:i]
        else:
            j = rng.randrange(len(s) + 1)
            a, b = min(i, j), max(i, j)
            s = s[:a] + s[b:] + s[a:b]
    return s


def nested(rng, depth, kind=None):
    kind = kind or rng.choice(["paren", "neg", "sgn", "pow", "mixed"])
    inner = rng.choice(["x", "1", "2y", "a + b"])
    for i in range(depth):
        k = kind if kind != "mixed" else rng.choice(["paren", "neg", "sgn", "pow"])
        if k == "paren":
            inner = f"({inner})" if rng.random() < 0.5 else f"({inner} + {i})"
        elif k == "neg":
            inner = f"-({inner})"
        elif k == "sgn":
            inner = f"sgn({inner})"
        else:
            inner = f"2^({inner})"
    return inner
