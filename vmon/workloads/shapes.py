"""W9 -- binary tree shapes: every shape up to n nodes (each node has 0 / left-only /
right-only / 2 children) and random larger ones.  shape = None | (left, right)."""
from functools import lru_cache


@lru_cache(maxsize=None)
def shapes(n):
    """all binary tree shapes with exactly n nodes (Catalan(n) of them)"""
    if n == 0:
        return (None,)
    out = []
    for i in range(n):
        for l in shapes(i):
            for r in shapes(n - 1 - i):
                out.append((l, r))
    return tuple(out)


def all_shapes_upto(n):
    for k in range(1, n + 1):
        for s in shapes(k):
            yield s


def count(s):
    return 0 if s is None else 1 + count(s[0]) + count(s[1])


def height(s):
    return 0 if s is None else 1 + max(height(s[0]), height(s[1]))


def mirror(s):
    return None if s is None else (mirror(s[1]), mirror(s[0]))


def is_full(s):
    """every node has 0 or 2 children"""
    if s is None:
        return True
    if (s[0] is None) != (s[1] is None):
        return False
    return is_full(s[0]) and is_full(s[1])


def random_shape(rng, n, p_one=0.3):
    """random shape with exactly n nodes"""
    if n == 0:
        return None
    if n == 1:
        return (None, None)
    if rng.random() < p_one:
        sub = random_shape(rng, n - 1, p_one)
        return (sub, None) if rng.random() < 0.5 else (None, sub)
    k = rng.randint(1, n - 2) if n > 2 else 1
    if n == 2:
        sub = (None, None)
        return (sub, None) if rng.random() < 0.5 else (None, sub)
    return (random_shape(rng, k, p_one), random_shape(rng, n - 1 - k, p_one))


def random_full_shape(rng, n_internal):
    """random full binary tree with n_internal inner nodes (2n+1 nodes)"""
    if n_internal == 0:
        return (None, None)
    k = rng.randint(0, n_internal - 1)
    return (random_full_shape(rng, k), random_full_shape(rng, n_internal - 1 - k))


def chain(n, side):
    s = None
    for _ in range(n):
        s = (s, None) if side == "L" else (None, s) if side == "R" else s
    return s


def zigzag(n):
    s = None
    for i in range(n):
        s = (s, None) if i % 2 else (None, s)
    return s


def build(s, factory, _ctr=None):
    """Build live nodes through factory(left, right, index) in pre-order index order."""
    if _ctr is None:
        _ctr = [0]
    if s is None:
        return None
    i = _ctr[0]
    _ctr[0] += 1
    l = build(s[0], factory, _ctr)
    r = build(s[1], factory, _ctr)
    return factory(l, r, i)


def shape_str(s):
    return "." if s is None else "(" + shape_str(s[0]) + shape_str(s[1]) + ")"


def shape_of(n, _d=0):
    if n is None:
        return None
    return (shape_of(n.left, _d + 1), shape_of(n.right, _d + 1))


def parse_shape(t):
    pos = [0]

    def rec():
        c = t[pos[0]]
        pos[0] += 1
        if c == ".":
            return None
        l = rec()
        r = rec()
        assert t[pos[0]] == ")"
        pos[0] += 1
        return (l, r)

    return rec()


def comb(depth, side, hang):
    """a spine of `depth` two-child nodes going down on `side` ('L' or 'R'); the other child of every
    spine node is the small shape `hang` (None for a one-child spine node), the spine ends in a leaf"""
    cur = (None, None)
    for _ in range(depth):
        cur = (cur, hang) if side == "L" else (hang, cur)
    return cur
