"""Expression workloads for the rule monitors: arm templates, rule-rich random
expressions, equations built around a known solution, embedding contexts."""
import random
from fractions import Fraction

from . import text as WT

COEF = ["", "", "2", "3", "4", "5", "7", "12", "0.5", "2.5", "0.25", "1.5", "-1", "-3", "-2", "-0.5", "1", "1", "0", "0", "0", "10", "6", "8", "9", "15", "100", "17.2"]
COEF_NZ = [c for c in COEF if c not in ("0",)]
EXPS = ["", "", "", "^2", "^3", "^2", "^4", "^0", "^1", "^-1", "^-2", "^0.5", "^2.5", "^5"]
VARS = "xyzabpq"

CONTEXTS = [
    "{}", "{}", "{} + q", "q + ({})", "({}) - q", "q - ({})", "({}) * q", "q * ({})", "({}) / q", "q / ({})", "({})^2", "q^({})",
    "-({})", "sgn({})", "{} = q", "q = {}", "(q + ({})) + r", "q * ({}) * r", "r + q * ({})", "2({})", "({})(q + 1)", "3 + ({}) = r",
    "({}) / 4 - 2", "7 - ({})", "1 / ({})", "({}) + ({})",
]

# arm templates: {c}=coefficient {k}=plain positive int {n}=negative const {v}/{w}=variables {e}=exponent {t}=term
TEMPLATES = [
    # CA
    "{k} + {k}", "{k} - {k}", "{k} * {k}", "{k} / {k}", "{d} + {d}", "{d} * {k}", "{k}^{j}", "-({k} + {k})", "-({k} * {d})", "({k}{v} * {k}) + {k}",
    "{k} + ({k} + {v})", "{k} * ({k} * {v})", "{k} + (({k} + {v}) + {w})", "{k} * (({k} * {v}) * {w})", "({k}{v} * {k}{w}{e}) * {v}", "{k}{v}{e} * {k}{w} * {v}{e}",
    "({v}{e} * {k}{w}{e}) * {k}{v}{e}", "{k} * ({k}{v} * {w})", "({k} * {k}{v}{e}) * {w}", "{n} + {k}", "{k} - {n}", "{k} / {k} / {k}", "{k} * {k} / {k}",
    # DF
    "{c}{v}{e} + {c}{v}{e}", "{c}{v} + {c}{v}", "{v} + {v}", "({w} + {c}{v}) + ({c}{v} + {t})", "({k} + {v}) + {v}", "({w} + ({t} + {c}{v})) + {c}{v}",
    "{c}{v} + (({c}{v} + {w}) + {t})", "{v} + ({v} + {c}{w})", "{k} + {k}", "{c}{v}{e} + {c}{w}{e}", "{c}{v}^2 + {c}{v}^3", "-{v} + {c}{v}", "-{v}^2 + {c}{v}^2",
    "{d}{v}{e} + {d}{v}{e}", "{k}{v} + {k}", "{k} + {k}{v}",
    # DM
    "{t} * ({t} + {t})", "({t} + {t}) * {t}", "{v}({t} + {k})", "({v} + {k})({w} + {k})", "{k}({v} + {k})", "({t} + {t}) * {v}{e}", "{v}{e} * ({k} + {w})",
    # MI
    "{t} / {t}", "({t} + {t}) / {t}", "{t} / -{v}", "{t} / -({t} + {k})", "{k} / {v}{e}", "{t} / ({t} * {t})", "{t} / {t} / {t}",
    # RS
    "{t} - {t}", "{t} - {c}{v}", "{t} - {n}", "{t} - -{v}", "{t} + {n}", "{t} + {n}{v}", "{t} + {n}{v}{e}", "{k} - {c}{v}{e}", "{t} - ({k} - {v})", "{t} - {k}^{j}",
    "{t} - ({k} + {v})", "{t} - {k}{v} * {w}", "{v} - {k}", "{v} - {w} - {t}", "{t} - {v}^{j}", "{t} - {k}({v} + {w})", "{t} - {k}!", "{t} - sgn({v})",
    # VM
    "{v} * {v}", "{c}{v}{e} * {c}{v}{e}", "{v}{e} * {v}{e}", "{v} * ({v} * {w})", "{c}{v}{e} * ({c}{v}{e} * {w})", "({k}{w}{e} * {v}{e}) * {k}{v}{e}", "{v} * {c}{v}",
    "{v}{e} * {w}{e}", "-{v} * {v}", "-{v}^2 * {v}",
    # like terms across a subtraction / quotient (outside every rule's pattern today)
    "{c}{v} - ({c}{v} + {t})", "({t} + {c}{v}) - ({c}{v} + {t})", "{c}{v} - (({c}{v} + {t}) + {t})", "{c}{v}{e} - {c}{v}{e}", "({k} + {v}) - {v}",
    "{v}{e} / {v}{e}", "{c}{v} / ({c}{v} * {w})", "{k} - ({k} - {v})", "{k} / ({k} / {v})", "{t} - ({t} - {t})", "({t} - {t}) - {t}", "({t} / {t}) / {t}",
    # CS / AG
    "{t} + {t}", "{t} * {t}", "{t} + {t} + {t}", "{t} * {t} * {t}", "({t} + {t}) + {t}", "{t} + ({t} + {t})", "({t} * {t}) * {t}", "{k}{v} * {w}", "{k}{v}{e} * {w}",
    "{t} + {t} + {t} + {t}", "({t} + {t}) + ({t} + {t})", "{t} - {t} + {t}", "{t} / {t} * {t}",
]

EQ_TEMPLATES = [
    "{t} + {t} = {t}", "{t} = {t} + {t}", "{k}{v} = {k}", "{k}{v} = {t}", "{t} + {k} = {k}", "{k}{v} + {k} = {k}{v} + {k}", "{t} + {t} + {t} = {t} + {t}",
    "{t} = {k}{v}", "{k}{v}{e} = {k}", "{t} - {t} = {t}", "{k} * ({v} + {k}) = {t}", "{t} / {k} = {k}", "-{v} = {k}", "{k}{v} * {w} = {k}",
    "({t} + {t}) * {k} = {t}", "sgn({t} + {v}) = {k}", "{v}^({k} + {k}) = {k}", "-({t} + {v}) = {k}", "{t} - ({t} + {v}) = {k}", "{k} / ({t} + {v}) = {k}",
    "({t} + {v}) / {k} = {t}", "{k} = {k}", "{k}{v} = {k}{v}", "0{v} = 0", "{k}{v} * {k}{w} = {k}", "{t} + ({t} + {t}) = {t}", "{k}({v} + {w}) = {k}",
    "{t} * ({t} + {k}) = {k}", "({t} + {k})^2 = {k}", "{t} + {k}{v} * {w} = {t}", "{t} + {v} = {t} + ({t} + {v})",
]


class Filler:
    def __init__(self, rng, vars_=None):
        self.r = rng
        self.vars = vars_ or rng.sample(VARS, rng.choice([1, 2, 2, 3]))
        if vars_ is None and rng.random() < 0.12:
            # every letter is its own variable: x and X are different ones
            self.vars = [self.vars[0], self.vars[0].upper()] + self.vars[1:2]

    def c(self):
        return self.r.choice(COEF)

    def k(self):
        return str(self.r.choice([1, 2, 3, 4, 5, 6, 7, 8, 9, 10, 12, 15, 20, 36, 100, 490]))

    def j(self):
        return str(self.r.choice([0, 1, 2, 2, 3, 4]))

    def d(self):
        return self.r.choice(["0.5", "2.5", "0.25", "1.5", "0.1", "0.2", "0.3", "12.75", "3.14", "17.2", "0.00002", "0.0000001", "123456.789", "0.001"])

    def n(self):
        return "-" + self.r.choice(["1", "2", "3", "4", "7", "0.5", "2.5", "10"])

    def v(self):
        return self.r.choice(self.vars)

    def e(self):
        return self.r.choice(EXPS)

    def t(self):
        r = self.r.random()
        if r < 0.2:
            return self.k()
        if r < 0.35:
            return self.v()
        c = self.c()
        return f"{c}{self.v()}{self.e()}"

    def fill(self, tpl):
        out = []
        i = 0
        while i < len(tpl):
            if tpl[i] == "{" and i + 2 < len(tpl) and tpl[i + 2] == "}":
                f = tpl[i + 1]
                if f == "w":
                    others = [x for x in self.vars] or ["x"]
                    out.append(self.r.choice(others))
                else:
                    out.append(getattr(self, f)())
                i += 3
            else:
                out.append(tpl[i])
                i += 1
        return "".join(out)


def near_miss(rng, tpl):
    """the same arm template with operators replaced by their non-commutative siblings: one
    '+'/'*' -> '-'/'/' , or every '+' -> '-', or every '*' -> '/' or '^'.  These are the shapes
    just outside a rule's pattern, where a widened applicability test would start to fire."""
    idx = [i for i, ch in enumerate(tpl) if ch in "+*" and i > 0 and tpl[i - 1] == " "]
    if not idx:
        return tpl
    mode = rng.random()
    if mode < 0.5:
        i = rng.choice(idx)
        return tpl[:i] + ("-" if tpl[i] == "+" else "/") + tpl[i + 1:]
    out = list(tpl)
    plus_to = "-"
    star_to = rng.choice(["/", "/", "^"])
    which = rng.choice(["+", "*", "both"])
    for i in idx:
        if tpl[i] == "+" and which in ("+", "both"):
            out[i] = plus_to
        elif tpl[i] == "*" and which in ("*", "both"):
            out[i] = star_to
    return "".join(out)


def substituted(text):
    """deterministic operator-substituted variants of a concrete text (used for the guaranteed
    arm texts): every ' + ' -> ' - ', every ' * ' -> ' / ', every ' * ' -> ' ^ '"""
    out = []
    if " + " in text:
        out.append(text.replace(" + ", " - "))
    if " * " in text:
        out.append(text.replace(" * ", " / "))
        out.append(text.replace(" * ", " ^ "))
    return out


def template_expr(rng):
    f = Filler(rng)
    tpl = rng.choice(TEMPLATES)
    if rng.random() < 0.2:
        tpl = near_miss(rng, tpl)
    s = f.fill(tpl)
    ctx = rng.choice(CONTEXTS)
    if ctx.count("{}") == 2:
        return ctx.format(s, f.fill(rng.choice(TEMPLATES)))
    return ctx.format(s)


def poly_expr(rng, nterms=None, vars_=None):
    """sum of terms over few variables: like terms are common"""
    f = Filler(rng, vars_)
    n = nterms or rng.randint(2, 7)
    parts = [f.t()]
    for _ in range(n - 1):
        op = rng.choice(["+", "+", "+", "-", "*"])
        t = f.t()
        if rng.random() < 0.15:
            t = "(" + t + " " + rng.choice("+-") + " " + f.t() + ")"
        parts.append(f" {op} {t}")
    s = "".join(parts)
    if rng.random() < 0.2:
        i = rng.randrange(len(parts))
    return s


def random_expr(rng):
    c = rng.random()
    if c < 0.45:
        return template_expr(rng)
    if c < 0.75:
        return poly_expr(rng)
    if c < 0.9:
        return WT.gen_text(rng, max_depth=2, big=False, exps="small", equations=0.2, vars_=rng.sample(VARS, 2))
    return WT.gen_text(rng, max_depth=3, big=False, equations=0.15)


def equation(rng):
    """(text, hint assignments): an equation that a known integer assignment solves when
    possible (the right-hand side is shifted by a constant so that sigma* solves it)."""
    from ..oracles import exact as X
    from ..oracles import refgrammar as G
    from ..oracles import shadow as S

    f = Filler(rng)
    s = f.fill(rng.choice(EQ_TEMPLATES))
    hints = []
    if rng.random() < 0.7:
        try:
            ast, _ = G.ref_parse(s)
        except Exception:
            return s, hints
        names = sorted(S.variables(ast))
        sig = {x: Fraction(rng.choice([-3, -2, -1, 1, 2, 3, 4, 5])) for x in names}
        try:
            a = X.value(ast[2], sig)
            b = X.value(ast[3], sig)
        except X.Undef:
            return s, hints
        k = a - b
        if k.denominator == 1 and abs(k) < 10 ** 6:
            if k != 0:
                s = s + (f" + {k}" if k > 0 else f" - {-k}")
            hints.append(sig)
    return s, hints


def is_reasonable(text):
    return len(text) < 400
