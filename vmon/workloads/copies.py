"""The library's objects are ordinary Python objects: callers deep-copy them (a search keeps states), pickle
them (multiprocessing, caching to disk) and copy them.  A copy made by the runtime is the same expression /
parser / rule / layout as far as every property is concerned, so the workloads route a share of their objects
through those copies before using them."""
import copy
import pickle

from .. import core

_N = [0]


def routed(obj, what, every=5, shallow=False):
    """obj itself most of the time; every `every`-th call a deep copy or an unpickled copy (or, for objects without
    links of their own, a shallow copy) of it.  Falls back to obj when the runtime cannot copy it."""
    _N[0] += 1
    n = _N[0]
    if n % every:
        return obj
    treelike = hasattr(obj, "left") and hasattr(obj, "right") and hasattr(obj, "parent")
    route = (n // every) % (3 if (shallow or treelike) else 2)
    before = None
    if treelike:
        import random as _random
        from ..oracles import shadow as S

        try:
            before = S.idshadow(obj)
            inner = [x for x in S.nodes_preorder(obj) if x.parent is not None]
            if inner:
                # copies of PARTS of the tree are made and dropped (one node restyled for display, a sub-expression
                # sent elsewhere): the tree itself is not involved
                x = _random.Random(n).choice(inner)
                for how in (copy.copy, copy.deepcopy, pickle.dumps):
                    try:
                        how(x)
                    except Exception:       # (classes defined inside a function cannot be pickled: not a finding)
                        pass
                core.REC.arm("copies:parts-copied-and-dropped")
                if S.idshadow(obj) != before:
                    core.REC.ev()
                    core.REC.violation(core.REC.prop, "copy-route/side-effect", "copying a part of a tree modified the tree",
                                       {"route": "copy-of-a-part", "tree": S.to_json(S.shadow(obj)),
                                        "summary": f"copy.copy / copy.deepcopy / pickle.dumps of the inner node '{S.text_of(x)[:60]}' of '{S.text_of(obj)[:100]}' changed the links of the tree itself"})
        except RecursionError:
            treelike = False
        except Exception:
            pass
        if treelike and route == 2:
            return routed_pair(obj, _random.Random(n + 1))
    try:
        if route == 0:
            out = copy.deepcopy(obj)
            core.REC.arm(f"copies:{what}:deepcopy")
        elif route == 1:
            out = pickle.loads(pickle.dumps(obj))
            core.REC.arm(f"copies:{what}:pickle")
        else:
            out = copy.copy(obj)
            core.REC.arm(f"copies:{what}:copy")
    except Exception:
        core.REC.arm(f"copies:{what}:not-copyable")
        return obj
    _same_tree(obj, out, what, ("deepcopy", "pickle", "copy")[route])
    return out


def _same_tree(obj, out, what, route):
    """a copy of a tree made by the runtime IS that tree: same classes, same payloads (value and numeric type,
    names, operand sides), links consistent.  Whatever property the check is about, it is about this tree too --
    a copy that silently differs (a constant that lost its value, a child whose parent link was not restored)
    would make every later observation on it one about another expression."""
    from ..oracles import shadow as S

    if not (hasattr(obj, "left") and hasattr(obj, "right") and hasattr(obj, "parent")):
        return
    rec = core.REC
    try:
        a, b = S.shadow(obj), S.shadow(out)
        problems = [] if a == b else ["the copy is a different tree"]
        problems += [str(q) for q in S.audit(out, expr=False)][:2]
    except RecursionError:
        return
    except Exception as e:
        problems = [f"the copy cannot be read: {type(e).__name__}"]
    rec.ev()
    if problems:
        try:
            text = S.text_of(obj)
        except Exception:
            text = "<tree>"
        rec.violation(rec.prop, f"copy-route/{route}", "a tree that went through the runtime's copy protocols is no longer the same tree",
                      {"route": route, "tree": S.to_json(S.shadow(obj)) if "a" in dir() else None,
                       "summary": f"{route} of '{text[:120]}': " + "; ".join(problems)})


def replay(w):
    """a copy-route witness: the tree is rebuilt from its shadow and sent through the same route again (for pairs,
    see routed_pair)"""
    from ..oracles import shadow as S

    obj = S.build(S.from_json(w["tree"]))
    route = w["route"]
    try:
        if route.startswith("pair"):
            inner = [n for n in S.nodes_preorder(obj) if n.parent is not None]
            for focus in inner:
                out = _pair_copy(focus, obj, route)
                if out is not None:
                    _same_tree(obj, out, "tree", route)
            return
        out = copy.deepcopy(obj) if route == "deepcopy" else pickle.loads(pickle.dumps(obj)) if route == "pickle" else copy.copy(obj)
    except Exception:
        return
    _same_tree(obj, out, "tree", route)


def _pair_copy(focus, tree, route):
    """one copy call over a record that holds an inner node BEFORE the tree it belongs to (a search state
    {'focus': node, 'expression': tree}, a tuple (change.result, root)): returns the copied tree"""
    try:
        if route == "pair-deepcopy-tuple":
            return copy.deepcopy((focus, tree))[1]
        if route == "pair-deepcopy-dict":
            return copy.deepcopy({"focus": focus, "expression": tree})["expression"]
        if route == "pair-pickle":
            return pickle.loads(pickle.dumps([focus, tree]))[1]
    except Exception:
        return None
    return None


def routed_pair(tree, rng):
    """the tree as it comes out of one copy call over a record that names one of its inner nodes first; the
    original when the runtime cannot copy it"""
    from ..oracles import shadow as S

    inner = [n for n in S.nodes_preorder(tree) if n.parent is not None]
    if not inner:
        return tree
    route = rng.choice(["pair-deepcopy-tuple", "pair-deepcopy-dict", "pair-pickle"])
    out = _pair_copy(rng.choice(inner), tree, route)
    if out is None:
        core.REC.arm("copies:pair:not-copyable")
        return tree
    core.REC.arm("copies:" + route)
    _same_tree(tree, out, "tree", route)
    return out
