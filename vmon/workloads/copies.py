"""The library's objects are ordinary Python objects: callers deep-copy them (a search keeps states), pickle
them (multiprocessing, caching to disk) and copy them.  A copy made by the runtime is the same expression /
parser / rule / layout as far as every property is concerned, so the workloads route a share of their objects
through those copies before using them."""
import copy
import pickle

from .. import core

_N = [0]


def routed(obj, what, every=5, shallow=False):
    """obj itself most of the time; every `every`-th call a deep copy or an unpickled copy (or, for objects without
    links of their own, a shallow copy) of it.  Falls back to obj when the runtime cannot copy it."""
    _N[0] += 1
    n = _N[0]
    if n % every:
        return obj
    route = (n // every) % (3 if shallow else 2)
    try:
        if route == 0:
            out = copy.deepcopy(obj)
            core.REC.arm(f"copies:{what}:deepcopy")
        elif route == 1:
            out = pickle.loads(pickle.dumps(obj))
            core.REC.arm(f"copies:{what}:pickle")
        else:
            out = copy.copy(obj)
            core.REC.arm(f"copies:{what}:copy")
        return out
    except Exception:
        core.REC.arm(f"copies:{what}:not-copyable")
        return obj
