"""One shard: python -m vmon.shard <Cxx> <tier> <seed> <shard> <nshards> <deadline> <out>
           or python -m vmon.shard <Cxx> --replay <file>"""
import faulthandler
import importlib
import json
import os
import sys
import traceback

from . import contracts, core, load


def main():
    a = sys.argv[1:]
    prop = a[0]
    sys.setrecursionlimit(6000)
    load.load()
    mod = importlib.import_module(f"vmon.props.{prop.lower()}")
    if a[1] == "--replay":
        with open(a[2]) as f:
            data = json.load(f)
        rec = core.set_recorder(core.Recorder(prop))
        cfg = core.Cfg(prop, "quick", 0, 0, 1, 600)
        if any(isinstance(w, dict) and w.get("caller_environment") for w in data.get("witnesses", [])):
            core.caller_environment()
        n = 0
        for w in data.get("witnesses", []):
            if isinstance(w, dict) and w.get("route") and w.get("tree"):
                from .workloads import copies as _copies

                _copies.replay(w)
                continue
            mod.replay(rec, cfg, w)
        for key, v in rec.violations.items():
            n += v["count"]
            print(f"VIOLATION property={prop} replay={a[2]}")
            print(f"  key={key} what={v['what']}")
            for w in v["witnesses"][:1]:
                print("  " + json.dumps(w, default=str)[:2000])
        if not n:
            print(f"replay: no violation reproduced ({rec.evaluations} monitor evaluations)")
        return 1 if n else 0
    tier, seed, shard, nshards, deadline, out = a[1], int(a[2]), int(a[3]), int(a[4]), float(a[5]), a[6]
    faulthandler.dump_traceback_later(float(os.environ.get("VERIF_WATCHDOG", 0) or (deadline * 3 + 90)), exit=True)
    rec = core.set_recorder(core.Recorder(prop))
    cfg = core.Cfg(prop, tier, seed, shard, nshards, deadline)
    rec.arm("interpreter:python -O (asserts stripped)" if sys.flags.optimize else "interpreter:default")
    if shard == 2 % nshards and not os.environ.get("VERIF_NO_CALLER_ENV"):
        core.caller_environment()
        rec.arm("environment:caller's decimal context and numpy print options changed")
    from .workloads import drive as _drive

    _drive.EXPIRED[0] = cfg.out_of_time
    from . import coverage

    cov_on = coverage.start(load.REPO)
    try:
        mod.run(rec, cfg)
        if cov_on:
            rec.notes["functions_executed"] = coverage.stop()
        if shard == 0 and not os.environ.get("VERIF_NO_W0"):
            from . import attach, w0

            if prop in attach.W0_PROPS:
                w0.run_repo_tests(rec, prop)
    except BaseException:
        traceback.print_exc()
        rec.notes["crash"] = traceback.format_exc()[-2000:]
        rec.notes["contract_evaluations"] = contracts.evaluations()
        rec.dump(out, cfg)  # what was observed (and any violation found) before the crash still counts
        return 3
    rec.notes["contract_evaluations"] = contracts.evaluations()
    rec.dump(out, cfg)
    return 0


if __name__ == "__main__":
    sys.exit(main())
