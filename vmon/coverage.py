"""Function-level coverage evidence: which functions of mathy_core ran while the
monitors were attached (sys.monitoring PY_START with DISABLE after the first hit, so the
cost is one callback per code object)."""
import os
import sys

TOOL = 4
_seen = set()
_root = None


def start(repo_root):
    global _root
    if not hasattr(sys, "monitoring"):
        return False
    _root = os.path.realpath(os.path.join(repo_root, "mathy_core")) + os.sep
    mon = sys.monitoring
    try:
        mon.use_tool_id(TOOL, "vmon-coverage")
    except ValueError:
        return False

    def on_start(code, offset):
        fn = code.co_filename
        if fn.startswith(_root):
            _seen.add((fn[len(_root):], code.co_qualname))
        return mon.DISABLE

    mon.register_callback(TOOL, mon.events.PY_START, on_start)
    mon.set_events(TOOL, mon.events.PY_START)
    return True


def stop():
    if hasattr(sys, "monitoring"):
        try:
            sys.monitoring.set_events(TOOL, 0)
        except Exception:
            pass
    out = {}
    for f, q in sorted(_seen):
        if q.startswith("<"):
            continue
        out.setdefault(f, []).append(q)
    return out
