#!/bin/sh
# setup_cmd: nothing to build or install (stdlib-only framework, repository imported from
# /repo's working tree by /venv/bin/python).  Self-test: the framework imports and the
# repository package resolves to /repo.
cd "$(dirname "$0")" || exit 1
PY=${VERIF_PYTHON:-/venv/bin/python}
[ -x "$PY" ] || PY=python3
mkdir -p evidence replays
PYTHONPATH="$(pwd)" PYTHONDONTWRITEBYTECODE=1 "$PY" - <<'PYEOF'
from vmon import load
m = load.load()
from vmon.oracles import shadow, exact, refgrammar
print("vmon self-test ok:", m.__file__, load.fingerprint()["source_sha256"][:12])
PYEOF
